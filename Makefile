# Builds the simulator against /repo's *current* working tree.
REPO ?= /repo
B ?= build
CXX_ASAN ?= clang++
COMMON = -std=c++17 -DYOMM2_VERIF_SIM -I$(REPO)/include -Isim -Wno-deprecated-declarations
ASAN_FLAGS = $(COMMON) -O1 -gline-tables-only -fno-omit-frame-pointer -fsanitize=address,undefined -fno-sanitize-recover=undefined

POLS = dbg rel vec map ind cind thr dfr dfv sdbg srel mapx mapy relx vecx sofd sofr shr
GENERIC = common plan exec gen main extras tw genglue
HDRS = $(wildcard sim/*.hpp) $(shell find $(REPO)/include -name '*.hpp')

ASAN_OBJS = $(addprefix $(B)/asan/,$(addsuffix .o,$(GENERIC) $(addprefix pol_,$(POLS))))

TSAN_FLAGS = $(COMMON) -O1 -gline-tables-only -fno-omit-frame-pointer -fsanitize=thread -DYS_NO_NEW_REPLACEMENT
TSAN_POLS = rel dbg ind map cind sdbg thr vec sofd mapx mapy relx vecx
TSAN_GENERIC = common plan exec gen sched atomyield twsched genglue
WRAPPED = $(foreach n,8 32 64,$(foreach op,load store exchange fetch_add fetch_sub compare_exchange_strong compare_exchange_weak,__tsan_atomic$(n)_$(op))) __cxa_guard_acquire __cxa_guard_release __cxa_guard_abort
WRAP_FLAGS = $(foreach s,$(WRAPPED),-Wl,--wrap=$(s))
TSAN_OBJS = $(addprefix $(B)/tsan/,$(addsuffix .o,$(TSAN_GENERIC) $(addprefix pol_,$(TSAN_POLS))))

all: $(B)/yosim.asan $(B)/yosched.tsan

$(B)/tsan/twsched.o: sim/tw.cpp

$(B)/tsan/%.o: sim/%.cpp $(HDRS)
	@mkdir -p $(B)/tsan
	$(CXX_ASAN) $(TSAN_FLAGS) -c $< -o $@

$(B)/yosched.tsan: $(TSAN_OBJS)
	$(CXX_ASAN) $(TSAN_FLAGS) $(WRAP_FLAGS) $^ -o $@ -lpthread

$(B)/asan/%.o: sim/%.cpp $(HDRS)
	@mkdir -p $(B)/asan
	$(CXX_ASAN) $(ASAN_FLAGS) -c $< -o $@

$(B)/yosim.asan: $(ASAN_OBJS)
	$(CXX_ASAN) $(ASAN_FLAGS) $^ -o $@

clean:
	rm -rf $(B)
