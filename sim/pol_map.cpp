#include "pols.hpp"
namespace ys {
static WorldT<pol::map> the_world("map");
}
