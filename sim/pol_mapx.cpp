#include "pols.hpp"
namespace ys {
static WorldT<pol::mapx> the_world("mapx");
}
