#include "pols.hpp"
#include "glue.hpp"
#include "twpols.hpp"

#include <yorel/yomm2/generator.hpp>

#include <sstream>

namespace ys {

namespace {
// one generator object per policy and simulated process
template<class P>
yorel::yomm2::generator& process_generator() {
    static yorel::yomm2::generator gen;
    return gen;
}

// ... and one output stream: a program that writes the tables and then the
// offsets into one file hands both calls the same std::ostream, in whatever
// formatting state the previous call left it
template<class P>
std::ostringstream& process_stream() {
    static std::ostringstream os;
    return os;
}

// what `write` appends to the stream
template<class F>
std::string appended(std::ostringstream& os, F write) {
    const std::size_t before = os.str().size();
    write(os);
    return os.str().substr(before);
}

template<class P, std::size_t... S>
std::string offsets_of(int slot, bool fresh, std::index_sequence<S...>) {
    std::ostringstream local_os;
    std::ostringstream& os = fresh ? local_os : process_stream<P>();
    const std::size_t before = os.str().size();
    yorel::yomm2::generator local;
    yorel::yomm2::generator& gen = fresh ? local : process_generator<P>();
    if (slot < 0) {
        gen.write_static_offsets<P>(os);
    } else {
        using fn = void (*)(yorel::yomm2::generator&, std::ostream&);
        static const fn tbl[] = {
            +[](yorel::yomm2::generator& g, std::ostream& o) {
                g.write_static_offsets<Meth<P, (int)S>>(o);
            }...};
        tbl[slot](gen, os);
    }
    return os.str().substr(before);
}
} // namespace

template<class P>
std::string glue_offsets(int slot, bool fresh) {
    return offsets_of<P>(slot, fresh, std::make_index_sequence<NSLOTS>());
}

template<class P>
void glue_new_generator() {
    process_generator<P>() = yorel::yomm2::generator();
    process_stream<P>() = std::ostringstream();
}

template<class P>
std::string glue_offsets_policy(bool fresh) {
    std::ostringstream local_os;
    std::ostringstream& os = fresh ? local_os : process_stream<P>();
    const std::size_t before = os.str().size();
    yorel::yomm2::generator local;
    yorel::yomm2::generator& gen = fresh ? local : process_generator<P>();
    gen.write_static_offsets<P>(os);
    return os.str().substr(before);
}

template<class P>
std::string glue_encode(
    const yorel::yomm2::detail::compiler<P>& compiler, const char* name) {
    return appended(process_stream<P>(), [&](std::ostream& os) {
        yorel::yomm2::generator::encode_dispatch_data(compiler, name, os);
    });
}

#define YS_GLUE(P)                                                            \
    template std::string glue_offsets<pol::P>(int, bool);                     \
    template void glue_new_generator<pol::P>();                               \
    template std::string glue_encode<pol::P>(                                 \
        const yorel::yomm2::detail::compiler<pol::P>&, const char*);
YS_GLUE(sdbg)
YS_GLUE(srel)
YS_GLUE(sofd)
YS_GLUE(sofr)
YS_GLUE(shr)

#define YS_GLUE_TW(P)                                                         \
    template std::string glue_offsets_policy<P>(bool);                        \
    template void glue_new_generator<P>();                                    \
    template std::string glue_encode<P>(                                      \
        const yorel::yomm2::detail::compiler<P>&, const char*);
YS_GLUE_TW(tw_dbg)
YS_GLUE_TW(tw_rel)
YS_GLUE_TW(cw_policy)

} // namespace ys
