#include "pols.hpp"
#include "glue.hpp"
#include "twpols.hpp"

#include <yorel/yomm2/generator.hpp>

#include <sstream>

namespace ys {

namespace {
// one generator object per policy and simulated process
template<class P>
yorel::yomm2::generator& process_generator() {
    static yorel::yomm2::generator gen;
    return gen;
}

template<class P, std::size_t... S>
std::string offsets_of(int slot, bool fresh, std::index_sequence<S...>) {
    std::ostringstream os;
    yorel::yomm2::generator local;
    yorel::yomm2::generator& gen = fresh ? local : process_generator<P>();
    if (slot < 0) {
        gen.write_static_offsets<P>(os);
    } else {
        using fn = void (*)(yorel::yomm2::generator&, std::ostream&);
        static const fn tbl[] = {
            +[](yorel::yomm2::generator& g, std::ostream& o) {
                g.write_static_offsets<Meth<P, (int)S>>(o);
            }...};
        tbl[slot](gen, os);
    }
    return os.str();
}
} // namespace

template<class P>
std::string glue_offsets(int slot, bool fresh) {
    return offsets_of<P>(slot, fresh, std::make_index_sequence<NSLOTS>());
}

template<class P>
void glue_new_generator() {
    process_generator<P>() = yorel::yomm2::generator();
}

template<class P>
std::string glue_offsets_policy(bool fresh) {
    std::ostringstream os;
    yorel::yomm2::generator local;
    yorel::yomm2::generator& gen = fresh ? local : process_generator<P>();
    gen.write_static_offsets<P>(os);
    return os.str();
}

template<class P>
std::string glue_encode(
    const yorel::yomm2::detail::compiler<P>& compiler, const char* name) {
    std::ostringstream os;
    yorel::yomm2::generator::encode_dispatch_data(compiler, name, os);
    return os.str();
}

#define YS_GLUE(P)                                                            \
    template std::string glue_offsets<pol::P>(int, bool);                     \
    template void glue_new_generator<pol::P>();                               \
    template std::string glue_encode<pol::P>(                                 \
        const yorel::yomm2::detail::compiler<pol::P>&, const char*);
YS_GLUE(sdbg)
YS_GLUE(srel)
YS_GLUE(sofd)
YS_GLUE(sofr)
YS_GLUE(shr)

#define YS_GLUE_TW(P)                                                         \
    template std::string glue_offsets_policy<P>(bool);                        \
    template void glue_new_generator<P>();                                    \
    template std::string glue_encode<P>(                                      \
        const yorel::yomm2::detail::compiler<P>&, const char*);
YS_GLUE_TW(tw_dbg)
YS_GLUE_TW(tw_rel)
YS_GLUE_TW(cw_policy)

} // namespace ys
