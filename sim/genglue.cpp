#include "pols.hpp"
#include "glue.hpp"
#include "twpols.hpp"

#include <yorel/yomm2/generator.hpp>

#include <sstream>

namespace ys {

namespace {
template<class P, std::size_t... S>
std::string offsets_of(int slot, std::index_sequence<S...>) {
    std::ostringstream os;
    yorel::yomm2::generator gen;
    if (slot < 0) {
        gen.write_static_offsets<P>(os);
    } else {
        using fn = void (*)(yorel::yomm2::generator&, std::ostream&);
        static const fn tbl[] = {
            +[](yorel::yomm2::generator& g, std::ostream& o) {
                g.write_static_offsets<Meth<P, (int)S>>(o);
            }...};
        tbl[slot](gen, os);
    }
    return os.str();
}
} // namespace

template<class P>
std::string glue_offsets(int slot) {
    return offsets_of<P>(slot, std::make_index_sequence<NSLOTS>());
}

template<class P>
std::string glue_offsets_policy() {
    std::ostringstream os;
    yorel::yomm2::generator gen;
    gen.write_static_offsets<P>(os);
    return os.str();
}

template<class P>
std::string glue_encode(
    const yorel::yomm2::detail::compiler<P>& compiler, const char* name) {
    std::ostringstream os;
    yorel::yomm2::generator::encode_dispatch_data(compiler, name, os);
    return os.str();
}

#define YS_GLUE(P)                                                            \
    template std::string glue_offsets<pol::P>(int);                           \
    template std::string glue_encode<pol::P>(                                 \
        const yorel::yomm2::detail::compiler<pol::P>&, const char*);
YS_GLUE(sdbg)
YS_GLUE(srel)
YS_GLUE(sofd)
YS_GLUE(sofr)

#define YS_GLUE_TW(P)                                                         \
    template std::string glue_offsets_policy<P>();                            \
    template std::string glue_encode<P>(                                      \
        const yorel::yomm2::detail::compiler<P>&, const char*);
YS_GLUE_TW(tw_dbg)
YS_GLUE_TW(tw_rel)

} // namespace ys
