#include "pols.hpp"
namespace ys {
static WorldT<pol::srel> the_world("srel");
}
