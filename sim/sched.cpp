// sched-sim (C16): real threads released one at a time by a seeded scheduler.
// The hand-off uses futex words touched only from functions compiled without
// sanitizer instrumentation, so ThreadSanitizer sees no happens-before edge
// between tasks: any two conflicting accesses from different tasks are
// reported although the tasks never overlap in real time, and the schedule
// that exposes them replays exactly.
#include "exec.hpp"
#include "gen.hpp"
#include "mini.hpp"
#include "schedcore.hpp"

#include <atomic>
#include <climits>
#include <cstring>
#include <linux/futex.h>
#include <sys/syscall.h>
#include <thread>

#include <yorel/yomm2/detail/types.hpp>
#include <yorel/yomm2/detail/verif_hooks.hpp>

extern "C" __attribute__((used, visibility("default"))) const char*
__tsan_default_options() {
    return "halt_on_error=1:exitcode=66:report_signal_unsafe=0:"
           "second_deadlock_stack=1:history_size=4";
}

namespace ys {

void install_hooks();

namespace {

// ---- the case

struct OpResult {
    bool bad = false;
    std::string why;
    // compact summary, compared with the sequential execution
    int kind = -1; // 0 definition ran, 1 error, 2 other
    int body = -1;
    int status = 0;
};

struct Expected {
    Res res;
    bool valid = false;
};

struct TaskScript {
    std::vector<Event> ops;
    std::vector<Expected> expect;
    std::vector<OpResult> seq, par;
};

struct Ctx {
    Plan plan;
    PolicyOps* A = nullptr;
    Registry regA;
    Lattice LA;
    std::map<int, std::vector<int>> defs_of; // method rec -> defs
};

Expected expect_for(Ctx& cx, const Event& e, const std::vector<int>& tuple) {
    Expected x;
    auto it = cx.defs_of.find(e.meth);
    std::vector<int> defs = it == cx.defs_of.end() ? std::vector<int>() : it->second;
    x.res = dispatch(cx.plan, cx.LA, defs, tuple);
    x.valid = true;
    return x;
}

// run one op of a caller task on policy A and judge it
OpResult run_op(Ctx& cx, const Event& e, const Expected& x, int held_cls[MAXVP]) {
    OpResult r;
    PolicyOps& A = *cx.A;
    switch (e.op) {
    case OP_CALL:
    case OP_VP_USE: {
        auto& m = cx.plan.recs[e.meth];
        int k = (int)m.vp.size();
        std::vector<CallArg> args(k);
        for (int i = 0; i < k; ++i) {
            if (e.op == OP_VP_USE && e.args[i] >= 0x1000) {
                args[i].vslot = e.args[i] - 0x1000;
                args[i].cls = held_cls[args[i].vslot];
                args[i].alias = 0;
            } else {
                args[i].cls = e.args[i];
                args[i].alias = e.aliases[i];
                args[i].route = e.op == OP_CALL ? e.rts[i] : 0;
            }
        }
        CallOut out = A.call(m.slot, args.data(), k, e.resolve != 0, false, -1);
        if (e.resolve) {
            SlotInfo si;
            A.slot_info(m.slot, si);
            std::uintptr_t want = x.res.kind == RES_DEF
                ? A.body_pf(m.slot, cx.plan.recs[x.res.def].body)
                : (x.res.kind == RES_NODEF ? si.pf_not_implemented : si.pf_ambiguous);
            r.kind = 0;
            r.body = out.pf == want ? 1 : 0;
            if (out.pf != want || out.err.alt != EA_NONE) {
                r.bad = true;
                r.why = "resolve returned another function than single-threaded";
            }
            return r;
        }
        if (x.res.kind == RES_DEF) {
            int body = cx.plan.recs[x.res.def].body;
            r.kind = out.nframes ? 0 : 1;
            r.body = out.nframes ? out.frames[0].body : -1;
            if (out.nframes != 1 || out.frames[0].body != body ||
                out.frames[0].slot != m.slot || !out.returned || out.ret != body) {
                r.bad = true;
                r.why = "call did not run the definition it runs single-threaded";
                return r;
            }
            for (int i = 0; i < out.nparams; ++i)
                if (out.frames[0].echo[i] != out.expect_echo[i]) {
                    r.bad = true;
                    r.why = "definition saw other arguments";
                }
        } else {
            r.kind = 1;
            r.status = out.err.status;
            int st = x.res.kind == RES_NODEF ? 1 : 2;
            if (out.nframes || out.returned || out.err.alt != EA_RESOLUTION ||
                out.err.status != st || out.err.handler_calls != 1) {
                r.bad = true;
                r.why = "erroring call did not raise the error it raises single-threaded";
                return r;
            }
            for (int i = 0; i < k; ++i)
                if (out.err.types[i] != A.class_id(args[i].cls, args[i].alias)) {
                    r.bad = true;
                    r.why = "resolution error carries other type ids";
                }
        }
        return r;
    }
    case OP_VP_MAKE: {
        ErrInfo err = A.vp_make(e.vslot, e.cls, e.alias, e.route, e.shared != 0);
        held_cls[e.vslot] = e.cls;
        VpInfo vi = A.vp_info(e.vslot);
        Snap sn = A.snap();
        r.kind = 2;
        if (err.alt != EA_NONE || !vi.live || vi.vptr != sn.static_vptr[e.cls]) {
            r.bad = true;
            r.why = "virtual_ptr construction differs from single-threaded";
        }
        return r;
    }
    case OP_VP_COPY: {
        A.vp_copy(e.vslot, e.vfrom, e.route);
        held_cls[e.vslot] = held_cls[e.vfrom];
        VpInfo a = A.vp_info(e.vfrom), b = A.vp_info(e.vslot);
        r.kind = 2;
        if (!b.live || a.obj != b.obj || a.vptr != b.vptr) {
            r.bad = true;
            r.why = "copied virtual_ptr differs from its source";
        }
        return r;
    }
    case OP_VP_DROP:
        A.vp_drop(e.vslot);
        held_cls[e.vslot] = -1;
        r.kind = 2;
        return r;
    default:
        r.kind = 2;
        return r;
    }
}

std::vector<int> legal_classes(const Lattice& L, int pc) {
    std::vector<int> v;
    for (int c = 0; c < L.n; ++c)
        if (L.reg[c] && !L.abstract[c] && L.le(c, pc))
            v.push_back(c);
    return v;
}

J sched_gen(std::uint64_t seed, int tier, long) {
    Plan plan = generate("C16", seed, tier);
    Rng r(mix3(seed, 0x5C4ED, 1));
    J c = J::obj();
    c.set("plan", plan_to_json(plan));
    // model of policy A: every record of policy 0
    Registry reg;
    for (int i = 0; i < (int)plan.recs.size(); ++i) {
        auto& rec = plan.recs[i];
        if (rec.pol != 0)
            continue;
        if (rec.kind == RK_CLASS)
            reg.classes.push_back(i);
        else if (rec.kind == RK_METHOD) {
            reg.methods.push_back(i);
            reg.defs[i];
        }
    }
    for (int i = 0; i < (int)plan.recs.size(); ++i)
        if (plan.recs[i].pol == 0 && plan.recs[i].kind == RK_DEF)
            reg.defs[plan.recs[i].meth].push_back(i);
    Lattice L = make_lattice(plan, reg);
    bool std0 = plan.pols[0] == "sdbg" || plan.pols[0] == "srel";
    auto reg_aliases = [&](int cls) {
        std::vector<int> al;
        if (std0) {
            al.push_back(0);
            return al;
        }
        for (int ri : reg.classes)
            if (plan.recs[ri].cls == cls &&
                std::find(al.begin(), al.end(), plan.recs[ri].alias) == al.end())
                al.push_back(plan.recs[ri].alias);
        return al;
    };
    int ntasks = r.range(2, tier ? 6 : 4);
    J tasks = J::arr();
    for (int t = 0; t < ntasks; ++t) {
        J script = J::arr();
        int nops = r.range(6, tier ? 40 : 24);
        int lo = 2 * t, hi = 2 * t + 1; // this task's pointer slots
        struct H {
            bool live = false, shared = false;
            int cls = 0;
        } held[2];
        for (int i = 0; i < nops && !reg.methods.empty(); ++i) {
            int what = (int)r.below(100);
            int mi = reg.methods[r.below(reg.methods.size())];
            auto& m = plan.recs[mi];
            std::string kinds = SLOT_KINDS[m.slot];
            std::vector<char> vk;
            for (char ch : kinds)
                if (ch != 'I')
                    vk.push_back(ch);
            Event e;
            e.pol = 0;
            if (what < 62) {
                e.op = OP_CALL;
                e.meth = mi;
                bool ok = true;
                for (std::size_t p = 0; p < m.vp.size(); ++p) {
                    auto lc = legal_classes(L, m.vp[p]);
                    if (lc.empty()) {
                        ok = false;
                        break;
                    }
                    int cls = lc[r.below(lc.size())];
                    auto al = reg_aliases(cls);
                    int alias = al[r.below(al.size())];
                    int route = RT_REF;
                    if (vk[p] == 'Q' || vk[p] == 'C')
                        route = (int)r.below(RT_COUNT);
                    else if (vk[p] == 'W')
                        route = (int)r.below(8);
                    if ((route == RT_FINAL || route == 7) && alias != 0)
                        route = RT_REF;
                    e.args.push_back(cls);
                    e.aliases.push_back(alias);
                    e.rts.push_back(route);
                }
                if (!ok)
                    continue;
                e.resolve = r.chance(0.3);
            } else if (what < 78) {
                e.op = OP_VP_MAKE;
                std::size_t p = r.below(m.vp.size());
                auto lc = legal_classes(L, m.vp[p]);
                if (lc.empty())
                    continue;
                e.cls = lc[r.below(lc.size())];
                e.alias = 0;
                e.shared = r.chance(0.35);
                e.route = (int)r.below(e.shared ? 8 : RT_COUNT);
                e.vslot = r.chance(0.5) ? lo : hi;
                held[e.vslot - lo] = {true, e.shared != 0, e.cls};
            } else if (what < 90) {
                e.op = OP_VP_USE;
                e.meth = mi;
                bool any = false, ok = true;
                for (std::size_t p = 0; p < m.vp.size(); ++p) {
                    int pick = -1;
                    for (int k = 0; k < 2; ++k)
                        if (held[k].live && (vk[p] == 'Q' || vk[p] == 'C' || vk[p] == 'W') &&
                            held[k].shared == (vk[p] == 'W') &&
                            L.le(held[k].cls, m.vp[p]))
                            pick = lo + k;
                    if (pick >= 0) {
                        e.args.push_back(0x1000 + pick);
                        any = true;
                    } else {
                        auto lc = legal_classes(L, m.vp[p]);
                        if (lc.empty()) {
                            ok = false;
                            break;
                        }
                        e.args.push_back(lc[r.below(lc.size())]);
                    }
                    e.aliases.push_back(0);
                }
                if (!ok || !any)
                    continue;
            } else if (what < 95) {
                e.op = OP_VP_COPY;
                int from = r.chance(0.5) ? 0 : 1;
                if (!held[from].live)
                    continue;
                e.vfrom = lo + from;
                e.vslot = lo + (1 - from);
                e.route = (int)r.below(2);
                held[1 - from] = held[from];
            } else {
                e.op = OP_VP_DROP;
                int k = (int)r.below(2);
                e.vslot = lo + k;
                held[k].live = false;
            }
            script.push(event_to_json(e));
        }
        tasks.push(script);
    }
    c.set("tasks", tasks);
    c.set("sched_seed", J((unsigned long long)r.next()));
    c.set("hook_yields", r.chance(0.7) ? (int)r.range(5, 60) : 0);
    // cold runs: the process has never dispatched or built a pointer for this
    // policy before the threads start, so first-use paths run concurrently
    c.set("cold", r.chance(0.08) ? 1 : 0);
    // scheduling points right before atomic operations (reference counts of
    // shared_ptr, anything atomic inside yomm2): every n-th one of a task
    c.set("atom_period", r.chance(0.5) ? (int)r.range(1, 6) : 0);
    c.set("atom_budget", (int)r.range(5, 80));
    return c;
}

MiniOutcome sched_run(const J& c) {
    MiniOutcome o;
    Ctx cx;
    cx.plan = plan_from_json(c.at("plan"));
    ExecOpts eo;
    eo.focus = "C16";
    eo.watch_isolation = true;
    auto fail = [&](const std::string& cls, const std::string& d) {
        if (o.key.empty()) {
            o.key = "C16/" + cls;
            o.detail = d;
        }
    };
    Session ses(cx.plan, eo);
    int setup = cx.plan.setup_events;
    bool cold = c.geti("cold", 0) != 0;
    for (int i = 0; i < setup; ++i)
        if (!ses.step((std::size_t)i))
            break;
    if (ses.stopped()) {
        RunResult r = ses.finish();
        if (r.status == RS_INVALID) {
            o.key = "";
            o.detail = "invalid: " + r.invalid_why;
            o.counters["invalid"] = 1;
            return o;
        }
        // a single-threaded violation during set-up is not C16's
        o.counters["setup_violation_other_property"] = 1;
        return o;
    }
    cx.A = ses.ops(0);
    cx.regA = ses.updated(0);
    cx.LA = make_lattice(cx.plan, cx.regA);
    cx.defs_of = cx.regA.defs;

    // scripts
    std::vector<TaskScript> scripts;
    for (auto& sj : c.at("tasks").a) {
        TaskScript ts;
        for (auto& ej : sj.a)
            ts.ops.push_back(event_from_json(ej));
        scripts.push_back(ts);
    }
    int ncallers = (int)scripts.size();
    if (ncallers + 1 > MAXTASK || 2 * ncallers > MAXVP) {
        o.detail = "invalid: too many tasks";
        ses.finish();
        return o;
    }
    // expectations from the model + sequential execution first
    for (int t = 0; t < ncallers; ++t) {
        auto& ts = scripts[t];
        int held_cls[MAXVP];
        for (auto& h : held_cls)
            h = -1;
        // simulate pointee classes to build the tuples
        int sim_cls[MAXVP];
        for (auto& h : sim_cls)
            h = -1;
        for (auto& e : ts.ops) {
            Expected x;
            if (e.op == OP_CALL || e.op == OP_VP_USE) {
                if (e.meth < 0 || e.meth >= (int)cx.plan.recs.size() ||
                    !cx.regA.has_method(e.meth)) {
                    o.detail = "invalid: method";
                    ses.finish();
                    return o;
                }
                auto& m = cx.plan.recs[e.meth];
                std::vector<int> tuple;
                bool legal = e.args.size() == m.vp.size() &&
                    e.aliases.size() == m.vp.size() &&
                    (e.op != OP_CALL || e.rts.size() == m.vp.size());
                for (std::size_t p = 0; legal && p < m.vp.size(); ++p) {
                    int cls = e.args[p];
                    if (e.op == OP_VP_USE && cls >= 0x1000) {
                        int vs = cls - 0x1000;
                        if (vs < 2 * t || vs > 2 * t + 1 || sim_cls[vs] < 0)
                            legal = false;
                        else
                            cls = sim_cls[vs];
                    }
                    if (legal && (cls < 0 || cls >= cx.LA.n || !cx.LA.reg[cls] ||
                                  cx.LA.abstract[cls] || !cx.LA.le(cls, m.vp[p])))
                        legal = false;
                    tuple.push_back(cls);
                }
                if (!legal) {
                    o.detail = "invalid: illegal call in script";
                    ses.finish();
                    return o;
                }
                x = expect_for(cx, e, tuple);
            } else if (e.op == OP_VP_MAKE) {
                if (e.vslot < 2 * t || e.vslot > 2 * t + 1 || e.cls < 0 ||
                    e.cls >= cx.LA.n || !cx.LA.reg[e.cls] || cx.LA.abstract[e.cls]) {
                    o.detail = "invalid: vp_make";
                    ses.finish();
                    return o;
                }
                sim_cls[e.vslot] = e.cls;
            } else if (e.op == OP_VP_COPY) {
                if (e.vslot < 2 * t || e.vslot > 2 * t + 1 || e.vfrom < 2 * t ||
                    e.vfrom > 2 * t + 1 || e.vslot == e.vfrom || sim_cls[e.vfrom] < 0) {
                    o.detail = "invalid: vp_copy";
                    ses.finish();
                    return o;
                }
                sim_cls[e.vslot] = sim_cls[e.vfrom];
            } else if (e.op == OP_VP_DROP) {
                if (e.vslot < 2 * t || e.vslot > 2 * t + 1) {
                    o.detail = "invalid: vp_drop";
                    ses.finish();
                    return o;
                }
                sim_cls[e.vslot] = -1;
            }
            ts.expect.push_back(x);
        }
        // the sequential table: every op once, before any thread exists
        // (cold runs build it after the threads have finished instead)
        if (!cold) {
            for (std::size_t i = 0; i < ts.ops.size(); ++i)
                ts.seq.push_back(run_op(cx, ts.ops[i], ts.expect[i], held_cls));
            for (int k = 2 * t; k <= 2 * t + 1; ++k)
                cx.A->vp_drop(k);
        }
        ts.par.resize(ts.ops.size());
    }
    for (auto& ts : scripts)
        for (std::size_t i = 0; i < ts.seq.size(); ++i)
            if (ts.seq[i].bad) {
                // wrong already single-threaded: another property's business
                o.counters["sequential_mismatch_other_property"] = 1;
                ses.finish();
                return o;
            }

    std::uint64_t checksum0 = cx.A->published_checksum();
    int ntasks = ncallers + 1;
    int hook_yields = (int)c.geti("hook_yields", 0);
    sched_reset(ntasks, hook_yields, (int)c.geti("atom_period", 0), (int)c.geti("atom_budget", 0));
    yorel::yomm2::verif::hooks.yield = hook_yields ? &hook_yield : nullptr;

    std::vector<std::thread> threads;
    for (int t = 0; t < ncallers; ++t) {
        threads.emplace_back([&, t] {
            task_begin(t);
            auto& ts = scripts[t];
            int held_cls[MAXVP];
            for (auto& h : held_cls)
                h = -1;
            for (std::size_t i = 0; i < ts.ops.size(); ++i) {
                ts.par[i] = run_op(cx, ts.ops[i], ts.expect[i], held_cls);
                task_yield();
            }
            for (int k = 2 * t; k <= 2 * t + 1; ++k)
                cx.A->vp_drop(k);
            task_end();
        });
    }
    bool updater_stopped = false;
    threads.emplace_back([&] {
        task_begin(ncallers);
        for (std::size_t i = (std::size_t)setup; i < cx.plan.events.size(); ++i) {
            if (!ses.step(i)) {
                updater_stopped = true;
                break;
            }
            task_yield();
        }
        task_end();
    });

    Rng sr(c.getu("sched_seed", 1));
    Hash sh;
    std::uint64_t steps = 0;
    bool checksum_bad = false;
    for (;;) {
        std::vector<int> runnable;
        for (int t = 0; t < ntasks; ++t)
            if (!sched_is_done(t))
                runnable.push_back(t);
        if (runnable.empty())
            break;
        int t = runnable[sr.below(runnable.size())];
        sh.u64((std::uint64_t)t);
        sched_release(t);
        ++steps;
        if (!checksum_bad && cx.A->published_checksum() != checksum0)
            checksum_bad = true;
    }
    for (auto& th : threads)
        th.join();
    yorel::yomm2::verif::hooks.yield = nullptr;

    if (cold) {
        for (int t = 0; t < ncallers; ++t) {
            auto& ts = scripts[t];
            int held_cls[MAXVP];
            for (auto& h : held_cls)
                h = -1;
            for (std::size_t i = 0; i < ts.ops.size(); ++i)
                ts.seq.push_back(run_op(cx, ts.ops[i], ts.expect[i], held_cls));
            for (int k = 2 * t; k <= 2 * t + 1; ++k)
                cx.A->vp_drop(k);
        }
        for (auto& ts : scripts)
            for (std::size_t i = 0; i < ts.seq.size(); ++i)
                if (ts.seq[i].bad) {
                    o.counters["sequential_mismatch_other_property"] = 1;
                    ses.finish();
                    return o;
                }
        o.counters["cold_runs"] = 1;
    }
    if (checksum_bad)
        fail("published-data-changed",
             "data published by update for policy " + cx.plan.pols[0] +
                 " changed while threads were calling");
    for (int t = 0; t < ncallers && o.key.empty(); ++t) {
        auto& ts = scripts[t];
        for (std::size_t i = 0; i < ts.ops.size(); ++i) {
            auto &a = ts.seq[i], &b = ts.par[i];
            if (b.bad || a.kind != b.kind || a.body != b.body || a.status != b.status) {
                fail("result-differs",
                     "task " + std::to_string(t) + " op " + std::to_string(i) +
                         " (" + op_name(ts.ops[i].op) + "): " +
                         (b.bad ? b.why : "result differs from the sequential execution"));
                break;
            }
        }
    }
    RunResult rr = ses.finish();
    // violations seen by the updater on policy B that belong to C14 (isolation)
    // or others are not C16's; a C16 focus violation cannot come from Exec
    (void)updater_stopped;
    Hash h;
    h.u64(sh.h);
    h.u64(rr.evhash);
    for (auto& ts : scripts)
        for (auto& p : ts.par) {
            h.u64((std::uint64_t)(p.kind + 1));
            h.u64((std::uint64_t)(p.body + 1));
        }
    o.hash = h.h;
    Hash sg;
    sg.u64(sh.h); // the schedule signature: sequence of (task) picks
    sg.u64(rr.signature);
    o.signature = sg.h;
    o.nontrivial = steps > (std::uint64_t)ntasks && ncallers >= 2;
    o.counters["events"] = steps;
    o.counters["tasks"] = (std::uint64_t)ntasks;
    std::uint64_t nops = 0;
    for (auto& ts : scripts)
        nops += ts.ops.size();
    o.counters["caller_ops"] = nops;
    o.counters["updater_events"] = cx.plan.events.size() - (std::size_t)setup;
    o.counters["updates_of_other_policy"] = rr.st.updates;
    for (auto& kv : rr.st.faults)
        o.counters["fault:" + kv.first] += kv.second;
    if (hook_yields)
        o.counters["runs_with_yields_inside_yomm2"] = 1;
    o.counters["yields_before_atomic_operations"] = sched_atom_yields();
    return o;
}

std::vector<J> sched_shrinks(const J& c) {
    std::vector<J> out;
    auto& tasks = c.at("tasks").a;
    // drop a task
    for (std::size_t t = 0; t < tasks.size(); ++t) {
        if (tasks.size() <= 1)
            break;
        J d = c;
        J nt = J::arr();
        // pointer slots are tied to the task index: keep indexes, empty script
        for (std::size_t k = 0; k < tasks.size(); ++k)
            nt.push(k == t ? J::arr() : tasks[k]);
        if (!tasks[t].a.empty()) {
            d.set("tasks", nt);
            out.push_back(d);
        }
    }
    // drop updater events after set-up
    {
        Plan p = plan_from_json(c.at("plan"));
        for (int i = (int)p.events.size() - 1; i >= p.setup_events; --i) {
            Plan q = p;
            q.events.erase(q.events.begin() + i);
            J d = c;
            d.set("plan", plan_to_json(q));
            out.push_back(d);
        }
    }
    // drop ops of a task, halves first
    for (std::size_t t = 0; t < tasks.size(); ++t) {
        auto& ops = tasks[t].a;
        for (std::size_t chunk = ops.size() / 2; chunk >= 1; chunk /= 2) {
            for (std::size_t i = 0; i + chunk <= ops.size(); i += chunk) {
                J d = c;
                J nt = J::arr();
                for (std::size_t k = 0; k < tasks.size(); ++k) {
                    if (k != t) {
                        nt.push(tasks[k]);
                        continue;
                    }
                    J no = J::arr();
                    for (std::size_t x = 0; x < ops.size(); ++x)
                        if (x < i || x >= i + chunk)
                            no.push(ops[x]);
                    nt.push(no);
                }
                d.set("tasks", nt);
                out.push_back(d);
            }
            if (chunk == 1)
                break;
        }
    }
    if (c.geti("hook_yields", 0)) {
        J d = c;
        d.set("hook_yields", 0);
        out.push_back(d);
    }
    if (c.geti("cold", 0)) {
        J d = c;
        d.set("cold", 0);
        out.push_back(d);
    }
    if (c.geti("atom_period", 0)) {
        J d = c;
        d.set("atom_period", 0);
        out.push_back(d);
    }
    return out;
}

} // namespace

MiniEngine sched_engine() {
    MiniEngine e;
    e.name = "sched";
    e.prop = "C16";
    e.gen = sched_gen;
    e.run = sched_run;
    e.shrinks = sched_shrinks;
    e.summary = [](const J& c) {
        J s = J::obj();
        auto& p = c.at("plan");
        s.set("policies", p.at("policies"));
        s.set("classes", p.at("world").geti("ncls", 0));
        s.set("records", J((unsigned long long)p.at("recs").a.size()));
        s.set("setup_events", p.geti("setup_events", 0));
        s.set("updater_events", J((long long)p.at("events").a.size() - p.geti("setup_events", 0)));
        J t = J::arr();
        for (auto& task : c.at("tasks").a) {
            J ops = J::arr();
            for (auto& op : task.a)
                ops.push(op.gets("op", ""));
            t.push(ops);
        }
        s.set("caller_tasks", t);
        s.set("sched_seed", J((unsigned long long)c.getu("sched_seed", 0)));
        s.set("hook_yields", c.geti("hook_yields", 0));
        s.set("cold", c.geti("cold", 0));
        s.set("atom_period", c.geti("atom_period", 0));
        return s;
    };
    e.pristine = [](const J& c) { return c.geti("cold", 0) != 0; };
    return e;
}

} // namespace ys

namespace ys {
MiniEngine twsched_engine();
}

// addresses (type_info objects under std_rtti, heap) are part of the simulated
// environment: switch address space randomisation off so that one seed is one
// execution in every process
#include <sys/personality.h>
static void no_aslr(char** argv) {
    int p = personality(0xffffffff);
    if (p == -1 || (p & ADDR_NO_RANDOMIZE) || getenv("YS_ASLR_KEPT"))
        return;
    if (personality(p | ADDR_NO_RANDOMIZE) == -1)
        return;
    setenv("YS_ASLR_KEPT", "1", 1); // never loop
    execv("/proc/self/exe", argv);
}

static const char* arg(int argc, char** argv, const char* name, const char* dflt) {
    for (int i = 1; i + 1 < argc; ++i)
        if (!strcmp(argv[i], name))
            return argv[i + 1];
    return dflt;
}
static bool flag(int argc, char** argv, const char* name) {
    for (int i = 1; i < argc; ++i)
        if (!strcmp(argv[i], name))
            return true;
    return false;
}

int main(int argc, char** argv) {
    using namespace ys;
    no_aslr(argv);
    if (argc < 2) {
        fprintf(stderr, "usage: yosched run|replay|gen ...\n");
        return 2;
    }
    exec_init();
    std::string cmd = argv[1];
    int rc = 0;
    try {
        MiniEngine e = sched_engine();
        {
            // engine: --prop twsched, or the engine named in a replay file
            std::string which = arg(argc, argv, "--prop", "sched");
            if (cmd == "replay" && argc > 2) {
                try {
                    which = jparse(read_file(argv[2])).gets("engine", "sched");
                } catch (std::exception&) {
                }
            }
            if (which == "twsched")
                e = twsched_engine();
        }
        int tier = !strcmp(arg(argc, argv, "--tier", "quick"), "thorough");
        std::uint64_t base = strtoull(arg(argc, argv, "--base-seed", "1"), nullptr, 0);
        if (cmd == "run") {
            rc = mini_run(
                e, tier, base, atol(arg(argc, argv, "--from", "0")),
                atol(arg(argc, argv, "--to", "100")),
                atof(arg(argc, argv, "--secs", "30")),
                arg(argc, argv, "--out", "/verif/replays"),
                arg(argc, argv, "--sigfile", ""),
                atoi(arg(argc, argv, "--max-failures", "3")));
        } else if (cmd == "replay") {
            J j = jparse(read_file(argv[2]));
            rc = mini_replay(e, j, flag(argc, argv, "--log"));
        } else if (cmd == "gen") {
            J c = e.gen(strtoull(arg(argc, argv, "--seed", "1"), nullptr, 0), tier, 0);
            printf("%s\n", c.str().c_str());
        } else
            rc = 2;
    } catch (std::exception& ex) {
        fprintf(stderr, "yosched: %s\n", ex.what());
        rc = 2;
    }
    fflush(stdout);
    _exit(rc);
}
