#include "pols.hpp"
namespace ys {
static WorldT<pol::sdbg> the_world("sdbg");
}
