// Reference model: the abstract registry of one policy and the documented
// dispatch rules. No yomm2 code, no state beyond the registry.
#pragma once

#include "plan.hpp"

#include <algorithm>
#include <map>
#include <set>

namespace ys {

// Live registrations of one policy, as record indices in registration order.
struct Registry {
    std::vector<int> classes; // class records
    std::vector<int> methods; // method records
    std::map<int, std::vector<int>> defs; // method record -> def records

    bool operator==(const Registry& o) const {
        return classes == o.classes && methods == o.methods && defs == o.defs;
    }
    bool operator!=(const Registry& o) const {
        return !(*this == o);
    }
    bool has_class_rec(int r) const {
        return std::find(classes.begin(), classes.end(), r) != classes.end();
    }
    bool has_method(int r) const {
        return std::find(methods.begin(), methods.end(), r) != methods.end();
    }
    bool empty() const {
        return classes.empty() && methods.empty();
    }
};

struct Lattice {
    int n = 0;
    bool reg[MAXC] = {};
    bool abstract[MAXC] = {};
    std::uint32_t anc[MAXC] = {};  // ancestors, including self
    std::uint32_t desc[MAXC] = {}; // descendants, including self

    // a <= b : a is b or derived from b
    bool le(int a, int b) const {
        return (anc[a] >> b) & 1u;
    }
    bool lt(int a, int b) const {
        return a != b && le(a, b);
    }
};

enum WellFormed { WF_OK = 0, WF_MISSING = 1, WF_INVALID = 2 };

struct WfResult {
    int status = WF_OK;
    std::set<int> missing; // classes referenced but not registered
    std::string why;
};

inline Lattice
make_lattice(const Plan& p, const Registry& r) {
    Lattice L;
    L.n = p.w.ncls;
    for (int c = 0; c < L.n; ++c) {
        L.anc[c] = 1u << c;
        L.abstract[c] = p.w.abstract[c] != 0;
    }
    for (int ri : r.classes) {
        auto& rec = p.recs[ri];
        L.reg[rec.cls] = true;
        for (int b : rec.bases)
            if (b != rec.cls)
                L.anc[rec.cls] |= 1u << b;
    }
    // transitive closure
    bool changed = true;
    while (changed) {
        changed = false;
        for (int c = 0; c < L.n; ++c) {
            std::uint32_t a = L.anc[c];
            for (int b = 0; b < L.n; ++b)
                if ((L.anc[c] >> b) & 1u)
                    a |= L.anc[b];
            if (a != L.anc[c]) {
                L.anc[c] = a;
                changed = true;
            }
        }
    }
    for (int c = 0; c < L.n; ++c)
        for (int b = 0; b < L.n; ++b)
            if ((L.anc[c] >> b) & 1u)
                L.desc[b] |= 1u << c;
    return L;
}

inline WfResult
well_formed(const Plan& p, const Registry& r, const Lattice& L) {
    WfResult w;
    auto need = [&](int c) {
        if (c < 0 || c >= L.n) {
            w.status = WF_INVALID;
            w.why = "class index out of range";
            return;
        }
        if (!L.reg[c])
            w.missing.insert(c);
    };
    for (int ri : r.classes) {
        auto& rec = p.recs[ri];
        for (int b : rec.bases)
            need(b);
    }
    // cycles (cannot happen when records only list ground-truth ancestors)
    for (int c = 0; c < L.n; ++c)
        for (int b = 0; b < L.n; ++b)
            if (b != c && L.le(c, b) && L.le(b, c)) {
                w.status = WF_INVALID;
                w.why = "cycle";
                return w;
            }
    std::set<int> slots;
    for (int mi : r.methods) {
        auto& m = p.recs[mi];
        if (!slots.insert(m.slot).second) {
            w.status = WF_INVALID;
            w.why = "method slot used twice";
            return w;
        }
        for (int c : m.vp)
            need(c);
    }
    for (auto& kv : r.defs) {
        if (kv.second.empty())
            continue;
        if (!r.has_method(kv.first)) {
            w.status = WF_INVALID;
            w.why = "definition without its method";
            return w;
        }
        auto& m = p.recs[kv.first];
        std::set<int> bodies;
        for (int di : kv.second) {
            auto& d = p.recs[di];
            if (d.vp.size() != m.vp.size()) {
                w.status = WF_INVALID;
                w.why = "definition arity";
                return w;
            }
            if (!bodies.insert(d.body).second) {
                w.status = WF_INVALID;
                w.why = "body used twice";
                return w;
            }
            for (std::size_t i = 0; i < d.vp.size(); ++i) {
                need(d.vp[i]);
                if (w.status == WF_INVALID)
                    return w;
                // a definition's class must be the method's or derive from it
                // (in C++ the compiler enforces this). Checked on the ground
                // truth so that a lost registration does not hide it.
            }
        }
    }
    if (w.status == WF_OK && !w.missing.empty())
        w.status = WF_MISSING;
    return w;
}

// definitions must be covariant with their method according to the lattice
inline bool defs_covariant(const Plan& p, const Registry& r, const Lattice& L) {
    for (auto& kv : r.defs) {
        if (kv.second.empty())
            continue;
        auto& m = p.recs[kv.first];
        for (int di : kv.second) {
            auto& d = p.recs[di];
            for (std::size_t i = 0; i < d.vp.size(); ++i)
                if (!L.le(d.vp[i], m.vp[i]))
                    return false;
        }
    }
    return true;
}

enum ResKind { RES_DEF = 0, RES_NODEF = 1, RES_AMBIG = 2 };

struct Res {
    int kind = RES_NODEF;
    int def = -1; // definition record index
    bool operator==(const Res& o) const {
        return kind == o.kind && def == o.def;
    }
    bool operator!=(const Res& o) const {
        return !(*this == o);
    }
};

// documented ordering: a is more specific than b iff at no virtual position
// a's class is a proper base of b's, and at one position at least it is a
// proper derived class. Unrelated positions are ignored.
inline bool more_specific(
    const Lattice& L, const std::vector<int>& a, const std::vector<int>& b) {
    bool result = false;
    for (std::size_t i = 0; i < a.size(); ++i) {
        if (a[i] == b[i])
            continue;
        if (L.le(a[i], b[i]))
            result = true;
        else if (L.le(b[i], a[i]))
            return false;
    }
    return result;
}

// winner(S): the d in S more specific than every other e in S
inline Res
winner(const Plan& p, const Lattice& L, const std::vector<int>& cands) {
    Res r;
    if (cands.empty()) {
        r.kind = RES_NODEF;
        return r;
    }
    for (int d : cands) {
        bool beats_all = true;
        for (int e : cands) {
            if (e == d)
                continue;
            if (!more_specific(L, p.recs[d].vp, p.recs[e].vp)) {
                beats_all = false;
                break;
            }
        }
        if (beats_all) {
            r.kind = RES_DEF;
            r.def = d;
            return r;
        }
    }
    r.kind = RES_AMBIG;
    return r;
}

inline bool applicable(
    const Lattice& L, const std::vector<int>& def,
    const std::vector<int>& tuple) {
    for (std::size_t i = 0; i < def.size(); ++i)
        if (!L.le(tuple[i], def[i]))
            return false;
    return true;
}

inline Res dispatch(
    const Plan& p, const Lattice& L, const std::vector<int>& defs,
    const std::vector<int>& tuple) {
    std::vector<int> app;
    for (int d : defs)
        if (applicable(L, p.recs[d].vp, tuple))
            app.push_back(d);
    return winner(p, L, app);
}

// number of applicable definitions (for "non trivial" accounting)
inline int n_applicable(
    const Plan& p, const Lattice& L, const std::vector<int>& defs,
    const std::vector<int>& tuple) {
    int n = 0;
    for (int d : defs)
        if (applicable(L, p.recs[d].vp, tuple))
            ++n;
    return n;
}

// next(d): the winner among definitions strictly more general than d
inline Res next_of(
    const Plan& p, const Lattice& L, const std::vector<int>& defs, int d) {
    std::vector<int> cands;
    auto& dv = p.recs[d].vp;
    for (int e : defs) {
        if (e == d)
            continue;
        auto& ev = p.recs[e].vp;
        bool all = true, strict = false;
        for (std::size_t i = 0; i < dv.size(); ++i) {
            if (!L.le(dv[i], ev[i])) {
                all = false;
                break;
            }
            if (dv[i] != ev[i])
                strict = true;
        }
        if (all && strict)
            cands.push_back(e);
    }
    return winner(p, L, cands);
}

struct ReportFlags {
    bool not_implemented = false, ambiguous = false;
    bool concrete_not_implemented = false, concrete_ambiguous = false;
};

// Existence of a tuple of registered (resp. non-abstract) classes acceptable
// to some method whose applicable set is empty / has no winner. Classes that
// have the same applicability mask at a position are interchangeable, so the
// enumeration runs over distinct masks (with a "contains a concrete class"
// flag), which is exact.
inline ReportFlags report_flags(const Plan& p, const Registry& r, const Lattice& L) {
    ReportFlags f;
    for (int mi : r.methods) {
        auto& m = p.recs[mi];
        std::vector<int> defs;
        auto it = r.defs.find(mi);
        if (it != r.defs.end())
            defs = it->second;
        std::size_t k = m.vp.size();
        // per position: mask -> has_concrete
        std::vector<std::vector<std::pair<std::uint32_t, bool>>> groups(k);
        for (std::size_t i = 0; i < k; ++i) {
            std::map<std::uint32_t, bool> g;
            for (int c = 0; c < L.n; ++c) {
                if (!L.reg[c] || !L.le(c, m.vp[i]))
                    continue;
                std::uint32_t mask = 0;
                for (std::size_t d = 0; d < defs.size(); ++d)
                    if (L.le(c, p.recs[defs[d]].vp[i]))
                        mask |= 1u << d;
                auto ins = g.emplace(mask, false);
                if (!L.abstract[c])
                    ins.first->second = true;
            }
            groups[i].assign(g.begin(), g.end());
        }
        std::vector<std::size_t> idx(k, 0);
        bool done = false;
        for (std::size_t i = 0; i < k; ++i)
            if (groups[i].empty())
                done = true;
        while (!done) {
            std::uint32_t mask = ~0u;
            bool concrete = true;
            for (std::size_t i = 0; i < k; ++i) {
                mask &= groups[i][idx[i]].first;
                concrete = concrete && groups[i][idx[i]].second;
            }
            std::vector<int> app;
            for (std::size_t d = 0; d < defs.size(); ++d)
                if ((mask >> d) & 1u)
                    app.push_back(defs[d]);
            Res w = winner(p, L, app);
            if (w.kind == RES_NODEF) {
                f.not_implemented = true;
                if (concrete)
                    f.concrete_not_implemented = true;
            } else if (w.kind == RES_AMBIG) {
                f.ambiguous = true;
                if (concrete)
                    f.concrete_ambiguous = true;
            }
            std::size_t i = 0;
            for (; i < k; ++i) {
                if (++idx[i] < groups[i].size())
                    break;
                idx[i] = 0;
            }
            if (i == k)
                done = true;
        }
    }
    return f;
}

} // namespace ys
