// The policy pool. Each policy is a distinct type, so that every one has its
// own catalogs, tables, hash parameters and handlers (C14 has real neighbours).
#pragma once

#include "world.hpp"

#include <map>

namespace ys {
namespace pol {

using namespace yorel::yomm2::policy;

// debug-shaped: checked hash, vector, error + trace output, old-style handler
struct dbg : basic_policy<
                 dbg, sim_rtti, checked_perfect_hash<dbg>, vptr_vector<dbg>,
                 basic_error_output<dbg, null_stream>,
                 basic_trace_output<dbg, null_stream>,
                 backward_compatible_error_handler<dbg>> {};

// release-shaped: fast hash, vector
struct rel : basic_policy<
                 rel, sim_rtti, fast_perfect_hash<rel>, vptr_vector<rel>,
                 backward_compatible_error_handler<rel>> {};

// vector without hash: ids are indexes
struct vec : basic_policy<vec, sim_rtti, vptr_vector<vec>, vectored_error<vec>> {
};

// map
struct map : basic_policy<map, sim_rtti, vptr_map<map>, vectored_error<map>> {};

// fast hash + indirect vptr
struct ind : basic_policy<
                 ind, sim_rtti, fast_perfect_hash<ind>, vptr_vector<ind>,
                 basic_indirect_vptr<ind>, vectored_error<ind>> {};

// checked hash + indirect vptr
struct cind : basic_policy<
                  cind, sim_rtti, checked_perfect_hash<cind>,
                  vptr_vector<cind>, basic_indirect_vptr<cind>,
                  basic_error_output<cind, null_stream>, vectored_error<cind>> {
};

// throwing policy
struct thr : basic_policy<
                 thr, sim_rtti, fast_perfect_hash<thr>, vptr_vector<thr>,
                 throw_error> {};

// deferred static ids
struct dfr : basic_policy<
                 dfr, sim_rtti_deferred, checked_perfect_hash<dfr>,
                 vptr_vector<dfr>, basic_error_output<dfr, null_stream>,
                 vectored_error<dfr>> {};

// deferred static ids, no hash (the shape used by the repository's own test)
struct dfv : basic_policy<
                 dfv, sim_rtti_deferred, vptr_vector<dfv>, vectored_error<dfv>> {
};

// a family obtained with rebind / replace / remove, from a parent whose facets
// carry explicit extra template arguments (C14: "policies obtained by rebind /
// replace / remove")
struct quiet_provider {
    static void default_error_handler(const yorel::yomm2::error_type&) {
    }
};
using ordered_vptr_map =
    std::map<yorel::yomm2::type_id, const std::uintptr_t*>;
struct mapx : basic_policy<
                  mapx, sim_rtti, vptr_map<mapx, ordered_vptr_map>,
                  vectored_error<mapx, quiet_provider>> {};
struct mapy : mapx::rebind<mapy> {};
struct relx : rel::rebind<relx>::replace<type_hash, checked_perfect_hash<relx>> {
};
struct vecx : ind::rebind<vecx>::remove<indirect_vptr>::remove<type_hash> {};

// stock policies, real std_rtti on the K<c> tokens
struct sdbg : debug::rebind<sdbg> {};
struct srel : release::rebind<srel> {};

// the stock policy of release builds of programs that use yomm2 as a shared
// library (YOMM2_SHARED + NDEBUG): it *derives* from debug_shared - catalogs,
// tables, checked hash and handler are debug_shared's - and overrides only
// dynamic_vptr with an unchecked look-up. No world is made for debug_shared
// itself in this process: the two are one policy with two names by design.
using shr = yorel::yomm2::policy::release_shared;

// the same two, with static_offsets<> specialised for every pooled method
// (C12): the call path reads slots and strides from what the generator wrote
struct sofd : debug::rebind<sofd> {};
struct sofr : release::rebind<sofr> {};

} // namespace pol
} // namespace ys

// What a program compiled with the generator's output contains: one
// specialisation per method. The generated ones are constexpr arrays; these
// are filled at run time by the harness from the generated text (the C++
// compiler is the stubbed component), which the library's code cannot tell
// apart: it only reads static_offsets<method>::slots[i] / strides[i].
namespace yorel {
namespace yomm2 {
namespace detail {
template<int N, typename Sig>
struct static_offsets<method<ys::key<N>, Sig, ys::pol::sofd>> {
    static inline std::size_t slots[8] = {};
    static inline std::size_t strides[8] = {};
};
template<int N, typename Sig>
struct static_offsets<method<ys::key<N>, Sig, ys::pol::sofr>> {
    static inline std::size_t slots[8] = {};
    static inline std::size_t strides[8] = {};
};
} // namespace detail
} // namespace yomm2
} // namespace yorel
