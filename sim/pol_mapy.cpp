#include "pols.hpp"
namespace ys {
static WorldT<pol::mapy> the_world("mapy");
}
