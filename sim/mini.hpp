// A small supervised search loop for the component-level engines (list-sim,
// hash-sim): batches in forked children, crash containment, determinism gate,
// greedy minimisation, replay files. Same line protocol as main.cpp's run.
#pragma once

#include "util.hpp"

#include <chrono>
#include <csignal>
#include <fcntl.h>
#include <functional>
#include <map>
#include <set>
#include <sys/stat.h>
#include <sys/wait.h>
#include <unistd.h>

namespace ys {

struct MiniOutcome {
    std::string key;    // "" = ok
    std::string detail;
    std::uint64_t hash = 0;      // event log hash
    std::uint64_t signature = 0; // distinctness
    bool nontrivial = false;
    bool poisoned = false; // process state may be corrupt: restart the worker
    std::map<std::string, std::uint64_t> counters;
};

struct MiniEngine {
    std::string name; // engine name ("list", "hash")
    std::string prop; // property its violations belong to
    std::function<J(std::uint64_t seed, int tier, long index)> gen;
    std::function<MiniOutcome(const J&)> run;
    std::function<std::vector<J>(const J&)> shrinks; // smaller candidates
    int cpu_limit = 20; // CPU seconds one run may take (a spinning run is a crash)
    std::function<J(const J&)> summary; // compact form of a case, for samples
    // cases that must be the first thing their process runs (first-use state
    // inside the code under test is part of what they explore)
    std::function<bool(const J&)> pristine;
};

inline double mini_now() {
    using namespace std::chrono;
    return duration<double>(steady_clock::now().time_since_epoch()).count();
}

struct MiniProbe {
    bool crashed = false;
    std::string key, detail;
    std::uint64_t hash = 0;
    std::string err;
};

inline MiniProbe mini_probe(const MiniEngine& e, const J& c) {
    MiniProbe pr;
    int fds[2], efds[2];
    if (pipe(fds) != 0 || pipe(efds) != 0)
        exit(2);
    fflush(stdout);
    pid_t pid = fork();
    if (pid == 0) {
        close(fds[0]);
        close(efds[0]);
        dup2(efds[1], 2);
        cpu_alarm(e.cpu_limit);
        MiniOutcome o = e.run(c);
        J j = J::obj();
        j.set("key", o.key);
        j.set("detail", o.detail);
        j.set("hash", J((unsigned long long)o.hash));
        std::string s = j.str();
        ssize_t w = write(fds[1], s.data(), s.size());
        (void)w;
        _exit(0);
    }
    close(fds[1]);
    close(efds[1]);
    std::string buf, ebuf;
    char tmp[4096];
    ssize_t n;
    while ((n = read(fds[0], tmp, sizeof tmp)) > 0)
        buf.append(tmp, (std::size_t)n);
    fcntl(efds[0], F_SETFL, O_NONBLOCK);
    int st = 0;
    waitpid(pid, &st, 0);
    while ((n = read(efds[0], tmp, sizeof tmp)) > 0)
        if (ebuf.size() < 8000)
            ebuf.append(tmp, (std::size_t)n);
    close(fds[0]);
    close(efds[0]);
    pr.err = ebuf;
    if (WIFSIGNALED(st)) {
        pr.crashed = true;
        pr.key = e.prop + "/crash/signal-" + std::to_string(WTERMSIG(st));
        pr.detail = "the simulated process died with signal " +
            std::to_string(WTERMSIG(st));
        return pr;
    }
    if (WIFEXITED(st) && WEXITSTATUS(st) == 66) {
        pr.crashed = true;
        pr.key = e.prop + "/race/tsan";
        pr.detail = "ThreadSanitizer reported a data race";
        for (auto pos = pr.err.find("WARNING: ThreadSanitizer"); pos != std::string::npos;) {
            pr.detail = pr.err.substr(pos, pr.err.find('\n', pos) - pos);
            break;
        }
        return pr;
    }
    if (WIFEXITED(st) && WEXITSTATUS(st) != 0) {
        pr.crashed = true;
        pr.key = e.prop + "/crash/" +
            (WEXITSTATUS(st) == 77 ? std::string("sanitizer")
                                   : "exit-" + std::to_string(WEXITSTATUS(st)));
        pr.detail = "the simulated process stopped";
        return pr;
    }
    try {
        J j = jparse(buf);
        pr.key = j.gets("key", "");
        pr.detail = j.gets("detail", "");
        pr.hash = j.getu("hash", 0);
    } catch (std::exception&) {
        pr.crashed = true;
        pr.key = e.prop + "/crash/no-result";
    }
    return pr;
}

inline int mini_replay(const MiniEngine& e, const J& file, bool verbose) {
    std::string want;
    if (file.has("violation"))
        want = file.at("violation").gets("key", "");
    MiniProbe pr = mini_probe(e, file.at("case"));
    printf(
        "replay: %s %s\n", pr.key.empty() ? "ok" : pr.key.c_str(),
        pr.detail.c_str());
    if (verbose && !pr.err.empty())
        printf("%s\n", pr.err.c_str());
    if (!pr.key.empty() && (want.empty() || pr.key == want))
        return 1;
    return 0;
}

inline int mini_run(
    const MiniEngine& e, int tier, std::uint64_t base, long from, long to,
    double secs, const std::string& outdir, const std::string& sigfile,
    int max_failures = 3) {
    double deadline = mini_now() + secs;
    long i = from, runs = 0;
    int failures = 0, unreproducible = 0;
    std::map<std::string, std::uint64_t> counters;
    std::set<std::uint64_t> sigs;
    std::vector<std::string> samples;
    auto seed_of = [&](long k) {
        std::uint64_t ph = 0;
        for (unsigned char c : e.name)
            ph = ph * 131 + c;
        return mix3(base, ph ^ 0x1111, (std::uint64_t)k);
    };
    while (i < to && mini_now() < deadline && failures < max_failures) {
        int fds[2];
        if (pipe(fds) != 0)
            return 2;
        fflush(stdout);
        pid_t pid = fork();
        if (pid == 0) {
            close(fds[0]);
            int dn = open("/dev/null", O_WRONLY);
            if (dn >= 0)
                dup2(dn, 2);
            FILE* out = fdopen(fds[1], "w");
            std::map<std::string, std::uint64_t> cc;
            auto flush_counters = [&] {
                J t = J::obj();
                for (auto& kv : cc)
                    t.set(kv.first, J((unsigned long long)kv.second));
                fprintf(out, "T %s\n", t.str().c_str());
                fflush(out);
            };
            for (long k = i; k < to; ++k) {
                if ((k - i) % 16 == 0 && mini_now() > deadline)
                    break;
                J c = e.gen(seed_of(k), tier, k);
                if (k > i && e.pristine && e.pristine(c)) {
                    // hand the case to a fresh child of the supervisor
                    flush_counters();
                    fprintf(out, "K %ld\n", k);
                    fflush(out);
                    _exit(4);
                }
                fprintf(out, "S %ld\n", k);
                fflush(out);
                cpu_alarm(e.cpu_limit);
                MiniOutcome o = e.run(c);
                cpu_alarm(0);
                for (auto& kv : o.counters)
                    cc[kv.first] += kv.second;
                fprintf(
                    out, "R %ld %d %016llx %016llx %d\n", k, o.key.empty() ? 0 : 1,
                    (unsigned long long)o.hash,
                    (unsigned long long)o.signature, (int)o.nontrivial);
                if (k < i + 2) {
                    std::string full = c.str();
                    if (full.size() > 1800 && e.summary)
                        full = e.summary(c).str();
                    if (full.size() > 1800) {
                        J n = J::obj();
                        n.set("note", "case too large to print here");
                        n.set("json_bytes", J((unsigned long long)full.size()));
                        full = n.str();
                    }
                    fprintf(out, "P %s\n", full.c_str());
                }
                if (!o.key.empty()) {
                    flush_counters();
                    fprintf(out, "F %ld\n", k);
                    fflush(out);
                    _exit(3);
                }
                if (o.poisoned) {
                    flush_counters();
                    fprintf(out, "K %ld\n", k);
                    fflush(out);
                    _exit(4);
                }
                if ((k - i) % 128 == 127)
                    flush_counters();
            }
            flush_counters();
            fprintf(out, "D\n");
            fflush(out);
            _exit(0);
        }
        close(fds[1]);
        FILE* in = fdopen(fds[0], "r");
        static char line[1 << 16];
        long started = -1, finished = -1, failed_at = -1;
        bool done = false, restart = false;
        std::map<std::string, std::uint64_t> child_counters;
        while (fgets(line, sizeof line, in)) {
            if (line[0] == 'S')
                started = atol(line + 2);
            else if (line[0] == 'R') {
                long idx;
                int st, nt;
                unsigned long long h, sg;
                if (sscanf(line, "R %ld %d %llx %llx %d", &idx, &st, &h, &sg, &nt) == 5) {
                    finished = idx;
                    ++runs;
                    if (getenv("YS_ELINES"))
                        printf("E %ld %016llx\n", idx, h);
                    if (nt)
                        sigs.insert(sg);
                }
            } else if (line[0] == 'T') {
                try {
                    J t = jparse(line + 2);
                    child_counters.clear();
                    for (auto& kv : t.o)
                        child_counters[kv.first] = kv.second.u64();
                } catch (std::exception&) {
                }
            } else if (line[0] == 'F')
                failed_at = atol(line + 2);
            else if (line[0] == 'P') {
                if (samples.size() < 2) {
                    std::string s(line + 2);
                    while (!s.empty() && s.back() == '\n')
                        s.pop_back();
                    samples.push_back(s);
                }
            } else if (line[0] == 'D')
                done = true;
            else if (line[0] == 'K')
                restart = true;
        }
        fclose(in);
        int st = 0;
        waitpid(pid, &st, 0);
        for (auto& kv : child_counters)
            counters[kv.first] += kv.second;
        if (restart && failed_at < 0) {
            i = finished + 1;
            continue;
        }
        long bad = failed_at >= 0 ? failed_at
            : (!done && !(WIFEXITED(st) && WEXITSTATUS(st) == 0) &&
               started > finished)
            ? started
            : -1;
        if (bad >= 0) {
            J c = e.gen(seed_of(bad), tier, bad);
            MiniProbe first = mini_probe(e, c);
            if (first.key.empty()) {
                printf("X %ld unreproducible failure in batch\n", bad);
                fflush(stdout);
                if (++unreproducible > 20)
                    return 2;
                i = bad + 1;
                continue;
            }
            MiniProbe again = mini_probe(e, c);
            J out = J::obj();
            out.set("index", J((long long)bad));
            out.set("seed", J((unsigned long long)seed_of(bad)));
            out.set("key", first.key);
            out.set("detail", first.detail);
            if (again.key != first.key || again.hash != first.hash) {
                out.set("gate", "nondeterministic");
            } else {
                // greedy minimisation
                int budget = first.key.find("signal-27") != std::string::npos ? 15 : 300;
                bool progress = true;
                while (progress && budget > 0) {
                    progress = false;
                    for (auto& cand : e.shrinks(c)) {
                        if (--budget <= 0)
                            break;
                        MiniProbe p = mini_probe(e, cand);
                        if (p.key == first.key) {
                            c = cand;
                            progress = true;
                            break;
                        }
                    }
                }
                MiniProbe fin = mini_probe(e, c);
                mkdir(outdir.c_str(), 0755);
                char name[300];
                snprintf(
                    name, sizeof name, "%s/%s-%s-%016llx.json", outdir.c_str(),
                    e.prop.c_str(), e.name.c_str(),
                    (unsigned long long)seed_of(bad));
                J file = J::obj();
                file.set("engine", e.name);
                file.set("prop", e.prop);
                file.set("case", c);
                J v = J::obj();
                v.set("property", e.prop);
                v.set("key", first.key);
                v.set("detail", fin.detail);
                if (!fin.err.empty())
                    v.set("stderr", fin.err.substr(0, 4000));
                file.set("violation", v);
                write_file(name, file.str() + "\n");
                out.set("detail", fin.detail);
                out.set("replay", std::string(name));
                out.set("gate", "ok");
            }
            printf("V %s\n", out.str().c_str());
            ++failures;
            i = bad + 1;
        } else if (done || (WIFEXITED(st) && WEXITSTATUS(st) == 0)) {
            i = finished + 1;
            break;
        } else {
            printf("X %ld child died outside a run\n", started);
            return 2;
        }
    }
    J sum = J::obj();
    sum.set("runs", J((long long)runs));
    sum.set("events", J((unsigned long long)counters["events"]));
    J f = J::obj();
    for (auto& kv : counters)
        if (kv.first.rfind("fault:", 0) == 0)
            f.set(kv.first.substr(6), J((unsigned long long)kv.second));
    sum.set("faults_fired", f);
    for (auto& kv : counters)
        if (kv.first.rfind("fault:", 0) != 0 && kv.first != "events")
            sum.set(kv.first, J((unsigned long long)kv.second));
    sum.set("failures", failures);
    J sm = J::arr();
    for (auto& s : samples) {
        try {
            sm.push(jparse(s));
        } catch (std::exception&) {
            sm.push(J(s));
        }
    }
    sum.set("samples", sm);
    printf("Z %s\n", sum.str().c_str());
    fflush(stdout);
    if (!sigfile.empty()) {
        std::string bin;
        for (auto s : sigs)
            bin.append(reinterpret_cast<const char*>(&s), 8);
        write_file(sigfile, bin);
    }
    return failures ? 1 : (unreproducible ? 2 : 0);
}

} // namespace ys
