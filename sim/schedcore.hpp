// The scheduler of sched-sim: real threads, exactly one of which holds the
// token. All state is touched only from functions compiled without sanitizer
// instrumentation, so ThreadSanitizer sees no happens-before edge between
// tasks. Scheduling points: explicit (between operations), hook H2 inside
// yomm2, and — through link-time wrappers of the sanitizer's atomic entry
// points (atomyield.cpp) — right before atomic operations of instrumented
// code, chosen by per-task counters derived from the seed.
#pragma once

#include <climits>
#include <linux/futex.h>
#include <sys/syscall.h>
#include <unistd.h>

#if defined(__clang__)
#define YS_NOSAN __attribute__((disable_sanitizer_instrumentation, noinline))
#else
#define YS_NOSAN __attribute__((no_sanitize("thread"), noinline))
#endif

namespace ys {

constexpr int MAXTASK = 8;

struct SchedWords {
    int wake[MAXTASK];
    int sched;
    int done[MAXTASK];
    int hook_budget[MAXTASK];
    // yields before atomic operations
    int atom_period;
    int atom_budget[MAXTASK];
    unsigned atom_count[MAXTASK];
    unsigned long atom_yields;
};
inline SchedWords sw;
inline thread_local int t_task = -1;
inline thread_local int t_guard_depth = 0; // inside a static initialiser

YS_NOSAN inline void futex_wait_for(int* word) {
    for (;;) {
        int v = __atomic_load_n(word, __ATOMIC_SEQ_CST);
        if (v) {
            __atomic_store_n(word, 0, __ATOMIC_SEQ_CST);
            return;
        }
        syscall(SYS_futex, word, FUTEX_WAIT_PRIVATE, 0, nullptr, nullptr, 0);
    }
}

YS_NOSAN inline void futex_post(int* word) {
    __atomic_store_n(word, 1, __ATOMIC_SEQ_CST);
    syscall(SYS_futex, word, FUTEX_WAKE_PRIVATE, 1, nullptr, nullptr, 0);
}

// task side: give the token back and wait to be picked again
YS_NOSAN inline void task_yield() {
    int t = t_task;
    if (t < 0)
        return;
    futex_post(&sw.sched);
    futex_wait_for(&sw.wake[t]);
}

YS_NOSAN inline void task_begin(int t) {
    t_task = t;
    futex_wait_for(&sw.wake[t]);
}

YS_NOSAN inline void task_end() {
    int t = t_task;
    __atomic_store_n(&sw.done[t], 1, __ATOMIC_SEQ_CST);
    t_task = -1;
    futex_post(&sw.sched);
}

YS_NOSAN inline void sched_release(int t) {
    futex_post(&sw.wake[t]);
    futex_wait_for(&sw.sched);
}

YS_NOSAN inline bool sched_is_done(int t) {
    return __atomic_load_n(&sw.done[t], __ATOMIC_SEQ_CST) != 0;
}

YS_NOSAN inline void sched_reset(int ntasks, int hook_budget, int atom_period = 0, int atom_budget = 0) {
    for (int i = 0; i < MAXTASK; ++i) {
        sw.wake[i] = 0;
        sw.done[i] = i < ntasks ? 0 : 1;
        sw.hook_budget[i] = hook_budget;
        sw.atom_budget[i] = atom_budget;
        sw.atom_count[i] = (unsigned)(i * 7);
    }
    sw.atom_period = atom_period;
    sw.atom_yields = 0;
    sw.sched = 0;
}

YS_NOSAN inline unsigned long sched_atom_yields() {
    return sw.atom_yields;
}

// hook H2: a scheduling point inside yomm2
YS_NOSAN inline void hook_yield(const char*) {
    int t = t_task;
    if (t < 0 || t_guard_depth > 0)
        return;
    if (sw.hook_budget[t] <= 0)
        return;
    --sw.hook_budget[t];
    futex_post(&sw.sched);
    futex_wait_for(&sw.wake[t]);
}

// a scheduling point right before an atomic operation of instrumented code
YS_NOSAN inline void atom_yield() {
    int t = t_task;
    if (t < 0 || t_guard_depth > 0 || sw.atom_period <= 0)
        return;
    if (sw.atom_budget[t] <= 0)
        return;
    if (sw.atom_count[t]++ % (unsigned)sw.atom_period != 0)
        return;
    --sw.atom_budget[t];
    ++sw.atom_yields;
    futex_post(&sw.sched);
    futex_wait_for(&sw.wake[t]);
}

} // namespace ys
