// Class tokens of the synthetic world, the simulator's rtti facets, a null
// output stream. Objects of "class c" are K<c> instances; inheritance between
// classes exists only in the registration records of the plan.
#pragma once

#include "ops.hpp"

#include <yorel/yomm2/core.hpp>

#include <memory>

namespace ys {

// Polymorphic, but - like many interface-style classes - without a virtual
// destructor (objects are owned through make_shared<K<c>>, whose deleter knows
// the complete type). The typed world's hierarchies have virtual destructors.
struct Obj {
    virtual void polymorphic_() {
    }
    int cls = 0;
    int alias = 0;
    tid id = 0; // the id this object answers to under the simulator's rtti
};

template<int I>
struct K : Obj {
    static constexpr int index = I;
    K() {
        cls = I;
        alias = 0;
        id = g.ids[I][0];
    }
};

extern Obj* g_obj[MAXC][MAXALIAS];
extern std::shared_ptr<Obj> g_sp[MAXC][MAXALIAS];
extern const std::shared_ptr<Obj>* g_csp[MAXC][MAXALIAS];

void make_objects();

struct null_stream {
    template<class T>
    null_stream& operator<<(const T&) {
        return *this;
    }
};

template<class T>
constexpr bool is_token = std::is_base_of_v<Obj, T>;

// ids come from the simulator's id table (the "loader")
struct sim_rtti : virtual yorel::yomm2::policy::rtti {
    template<class T>
    static yorel::yomm2::type_id static_type() {
        if constexpr (std::is_same_v<Obj, T>) {
            return OBJ_STATIC_ID;
        } else if constexpr (is_token<T>) {
            return g.ids[T::index][0];
        } else {
            static char id;
            return reinterpret_cast<yorel::yomm2::type_id>(&id);
        }
    }

    template<class T>
    static yorel::yomm2::type_id dynamic_type(const T& obj) {
        if constexpr (is_token<T>) {
            return obj.id;
        } else {
            return NONOBJ_ID;
        }
    }

    template<class Stream>
    static void type_name(yorel::yomm2::type_id type, Stream& stream) {
        stream << "id(" << type << ")";
    }

    static yorel::yomm2::type_id type_index(yorel::yomm2::type_id type) {
        return canon_id(type);
    }

    template<typename D, typename B>
    static D dynamic_cast_ref(B&& obj) {
        return dynamic_cast<D>(obj);
    }
};

// same, but registration records hold id-returning functions until update
struct sim_rtti_deferred : virtual yorel::yomm2::policy::deferred_static_rtti {
    template<class T>
    static yorel::yomm2::type_id static_type() {
        return sim_rtti::static_type<T>();
    }
    template<class T>
    static yorel::yomm2::type_id dynamic_type(const T& obj) {
        return sim_rtti::dynamic_type(obj);
    }
    template<class Stream>
    static void type_name(yorel::yomm2::type_id type, Stream& stream) {
        stream << "id(" << type << ")";
    }
    static yorel::yomm2::type_id type_index(yorel::yomm2::type_id type) {
        return canon_id(type);
    }
    template<typename D, typename B>
    static D dynamic_cast_ref(B&& obj) {
        return dynamic_cast<D>(obj);
    }
};

template<int C, int A>
yorel::yomm2::type_id idfn() {
    return g.ids[C][A];
}

} // namespace ys
