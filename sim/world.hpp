// Synthetic world: one policy's instantiation of the real library, driven
// through hand-built registration records (what class_declaration, method and
// add_function static objects would contribute), real method objects and real
// calls. Included once per policy translation unit.
#pragma once

#include "tokens.hpp"
#include "emitted.hpp"

#include <alloca.h>
#include <yorel/yomm2/decode.hpp>
#ifndef YS_NO_GLUE
#include "glue.hpp"
#endif

#include <cstring>
#include <new>
#include <optional>
#include <typeinfo>
#include <unistd.h>

namespace ys {

namespace y2 = yorel::yomm2;


template<int N>
struct key;

// what the handler throws (mode HM_THROW / HM_CALL_ERROR)
struct SimThrow {
    ErrInfo info;
};

struct TlsTrace {
    int nframes = 0;
    Frame frames[4];
    bool follow_next = false;
    int depth = 0;
    int handler_calls = 0;
};

inline TlsTrace& tls() {
    static thread_local TlsTrace t;
    return t;
}


inline void fill_err(ErrInfo& info, const y2::error_type& ev) {
    if (auto e = std::get_if<y2::resolution_error>(&ev)) {
        info.alt = EA_RESOLUTION;
        info.status = e->status;
        info.arity = e->arity;
        for (int i = 0; i < 16; ++i)
            info.types[i] = e->types[i];
    } else if (auto e = std::get_if<y2::unknown_class_error>(&ev)) {
        info.alt = EA_UNKNOWN_CLASS;
        info.type = e->type;
    } else if (auto e = std::get_if<y2::hash_search_error>(&ev)) {
        info.alt = EA_HASH_SEARCH;
        info.attempts = e->attempts;
        info.buckets = e->buckets;
    } else if (auto e = std::get_if<y2::method_table_error>(&ev)) {
        info.alt = EA_METHOD_TABLE;
        info.type = e->type;
    } else if (std::get_if<y2::static_slot_error>(&ev)) {
        info.alt = EA_STATIC_SLOT;
    } else if (std::get_if<y2::static_stride_error>(&ev)) {
        info.alt = EA_STATIC_STRIDE;
    } else {
        info.alt = EA_GENERIC;
    }
}

// ---------------------------------------------------------------------------
// echo of arguments as seen inside a definition body

inline std::uintptr_t echo(int v) {
    return (std::uintptr_t)(long)v;
}
inline std::uintptr_t echo(Obj& o) {
    return (std::uintptr_t)&o;
}
inline std::uintptr_t echo(Obj* o) {
    return (std::uintptr_t)o;
}
inline std::uintptr_t echo(const std::shared_ptr<Obj>& o) {
    return (std::uintptr_t)o.get();
}
template<class P>
std::uintptr_t echo(const y2::virtual_ptr<Obj, P>& p) {
    return (std::uintptr_t)p.get();
}
template<class P>
std::uintptr_t echo(const y2::virtual_ptr<std::shared_ptr<Obj>, P>& p) {
    return (std::uintptr_t)p.get().get();
}

// ---------------------------------------------------------------------------
// signatures of the method pool

template<class P>
struct Sigs {
    using V = y2::virtual_<Obj&>;
    using T = y2::virtual_<Obj*>;
    using S = y2::virtual_<std::shared_ptr<Obj>>;
    using R = y2::virtual_<const std::shared_ptr<Obj>&>;
    using Q = y2::virtual_ptr<Obj, P>;
    using C = const y2::virtual_ptr<Obj, P>&;
    using W = y2::virtual_ptr<std::shared_ptr<Obj>, P>;
    using I = int;
    using list = y2::detail::types<
        int(V),             // 0
        int(V),             // 1
        int(I, V),          // 2
        int(V, I),          // 3
        int(V, V),          // 4
        int(V, V),          // 5
        int(V, I, V),       // 6
        int(I, V, V, I),    // 7
        int(V, V, V),       // 8
        int(V, I, V, I, V), // 9
        int(V, V, V, V),    // 10
        int(Q),             // 11
        int(Q, Q),          // 12
        int(Q, I, Q),       // 13
        int(T),             // 14
        int(S),             // 15
        int(R, V),          // 16
        int(C, V),          // 17
        int(W),             // 18
        int(V, I, W),       // 19
        int(V, V, V, V, V), // 20: arity 5
        int(T, I, C, W, R)  // 21: four virtual parameters of four kinds
        >;
};

template<class P, class A>
struct KindOf;
template<class P>
struct KindOf<P, int> {
    static constexpr char c = 'I';
};
template<class P>
struct KindOf<P, y2::virtual_<Obj&>> {
    static constexpr char c = 'V';
};
template<class P>
struct KindOf<P, y2::virtual_<Obj*>> {
    static constexpr char c = 'T';
};
template<class P>
struct KindOf<P, y2::virtual_<std::shared_ptr<Obj>>> {
    static constexpr char c = 'S';
};
template<class P>
struct KindOf<P, y2::virtual_<const std::shared_ptr<Obj>&>> {
    static constexpr char c = 'R';
};
template<class P>
struct KindOf<P, y2::virtual_ptr<Obj, P>> {
    static constexpr char c = 'Q';
};
template<class P>
struct KindOf<P, const y2::virtual_ptr<Obj, P>&> {
    static constexpr char c = 'C';
};
template<class P>
struct KindOf<P, y2::virtual_ptr<std::shared_ptr<Obj>, P>> {
    static constexpr char c = 'W';
};

// ---------------------------------------------------------------------------
// virtual_ptr makers, by route, for a run-time class index

template<class P>
using VPtr = y2::virtual_ptr<Obj, P>;
template<class P>
using VSPtr = y2::virtual_ptr<std::shared_ptr<Obj>, P>;

template<class P, int I>
VPtr<P> make_exact(Obj& o) {
    y2::virtual_ptr<K<I>, P> typed(static_cast<K<I>&>(o));
    return VPtr<P>(typed);
}
template<class P, int I>
VPtr<P> make_final(Obj& o) {
    auto typed = y2::virtual_ptr<K<I>, P>::final(static_cast<K<I>&>(o));
    return VPtr<P>(typed);
}
template<class P, int I>
VPtr<P> make_move(Obj& o) {
    y2::virtual_ptr<K<I>, P> typed(static_cast<K<I>&>(o));
    return VPtr<P>(std::move(typed));
}
template<class P, int I>
VSPtr<P> make_sexact(const std::shared_ptr<Obj>& o) {
    const std::shared_ptr<K<I>> sp = std::static_pointer_cast<K<I>>(o);
    y2::virtual_ptr<std::shared_ptr<K<I>>, P> typed(sp);
    return VSPtr<P>(typed);
}
template<class P, int I>
VSPtr<P> make_sfinal(const std::shared_ptr<Obj>& o) {
    // what make_virtual_shared does, on the harness's own object
    auto typed = y2::virtual_ptr<std::shared_ptr<K<I>>, P>::final(
        std::static_pointer_cast<K<I>>(o));
    return VSPtr<P>(typed);
}
template<class P, int I>
VSPtr<P> make_smove(const std::shared_ptr<Obj>& o) {
    const std::shared_ptr<K<I>> sp = std::static_pointer_cast<K<I>>(o);
    y2::virtual_ptr<std::shared_ptr<K<I>>, P> typed(sp);
    return VSPtr<P>(std::move(typed));
}
// a fresh object through the documented factory
template<class P, int I>
VSPtr<P> make_smvs(int alias) {
    auto typed = y2::make_virtual_shared<K<I>, P>();
    typed->cls = I;
    typed->alias = alias;
    typed->id = g.ids[I][alias];
    return VSPtr<P>(typed);
}

template<class P, std::size_t... I>
struct MakerTable {
    using fn = VPtr<P> (*)(Obj&);
    using sfn = VSPtr<P> (*)(const std::shared_ptr<Obj>&);
    using mfn = VSPtr<P> (*)(int);
    static constexpr fn exact[sizeof...(I)] = {&make_exact<P, (int)I>...};
    static constexpr fn final_[sizeof...(I)] = {&make_final<P, (int)I>...};
    static constexpr fn move[sizeof...(I)] = {&make_move<P, (int)I>...};
    static constexpr sfn sexact[sizeof...(I)] = {&make_sexact<P, (int)I>...};
    static constexpr sfn sfinal[sizeof...(I)] = {&make_sfinal<P, (int)I>...};
    static constexpr sfn smove[sizeof...(I)] = {&make_smove<P, (int)I>...};
    static constexpr mfn smvs[sizeof...(I)] = {&make_smvs<P, (int)I>...};
    static constexpr std::uintptr_t** svp[sizeof...(I)] = {
        &P::template static_vptr<K<(int)I>>...};
};

template<class P, class Seq>
struct MakerTableFor;
template<class P, std::size_t... I>
struct MakerTableFor<P, std::index_sequence<I...>> {
    using type = MakerTable<P, I...>;
};
template<class P>
using Makers =
    typename MakerTableFor<P, std::make_index_sequence<MAXC>>::type;

template<class P>
VPtr<P> make_vp(int cls, int alias, int route, bool final_on_obj = false) {
    Obj& o = *g_obj[cls][alias];
    if (final_on_obj) {
        // static type Obj, dynamic type K<cls>: a mismatch final must report
        return VPtr<P>::final(o);
    }
    switch (route) {
    case RT_EXACT:
        return Makers<P>::exact[cls](o);
    case RT_FINAL:
        return Makers<P>::final_[cls](o);
    case RT_COPY: {
        VPtr<P> p(o);
        VPtr<P> q(p);
        return q;
    }
    case RT_MOVE:
        return Makers<P>::move[cls](o);
    default:
        return VPtr<P>(o);
    }
}

template<class P>
VSPtr<P> make_vsp(int cls, int alias, int route) {
    // const lvalue: the only shared_ptr value category whose dynamic type
    // is looked up through the pointee (see DESIGN.md, defect D9, for the
    // other value categories)
    const std::shared_ptr<Obj>& co = *g_csp[cls][alias];
    switch (route) {
    case RT_EXACT:
        return Makers<P>::sexact[cls](co);
    case RT_FINAL:
        return Makers<P>::sfinal[cls](co);
    case RT_COPY: {
        VSPtr<P> p(co);
        VSPtr<P> q(p);
        return q;
    }
    case RT_MOVE:
        return Makers<P>::smove[cls](co);
    case 5: { // non-const lvalue shared_ptr
        std::shared_ptr<Obj> lv = co;
        return VSPtr<P>(lv);
    }
    case 6: // rvalue shared_ptr
        return VSPtr<P>(std::shared_ptr<Obj>(co));
    case 7: // make_virtual_shared
        return Makers<P>::smvs[cls](alias);
    default:
        return VSPtr<P>(co);
    }
}

// ---------------------------------------------------------------------------
// held virtual_ptrs (lifetimes interleaved with updates)

template<class P>
struct Held {
    static inline std::optional<VPtr<P>> plain[MAXVP];
    static inline std::optional<VSPtr<P>> shared[MAXVP];
};

// ---------------------------------------------------------------------------
// argument holders: build the actual argument of each parameter

template<class P, class A>
struct Holder;

template<class P>
struct Holder<P, int> {
    int v;
    Holder(const CallArg*, int& vi, int nonce) : v(nonce) {
        (void)vi;
    }
    int get() {
        return v;
    }
    std::uintptr_t expect() {
        return echo(v);
    }
};

template<class P>
struct Holder<P, y2::virtual_<Obj&>> {
    Obj* o;
    Holder(const CallArg* a, int& vi, int) {
        o = g_obj[a[vi].cls][a[vi].alias];
        ++vi;
    }
    Obj& get() {
        return *o;
    }
    std::uintptr_t expect() {
        return (std::uintptr_t)o;
    }
};

template<class P>
struct Holder<P, y2::virtual_<Obj*>> {
    Obj* o;
    Holder(const CallArg* a, int& vi, int) {
        o = g_obj[a[vi].cls][a[vi].alias];
        ++vi;
    }
    Obj* get() {
        return o;
    }
    std::uintptr_t expect() {
        return (std::uintptr_t)o;
    }
};

template<class P>
struct Holder<P, y2::virtual_<std::shared_ptr<Obj>>> {
    std::shared_ptr<Obj> o;
    Holder(const CallArg* a, int& vi, int) {
        o = g_sp[a[vi].cls][a[vi].alias];
        ++vi;
    }
    std::shared_ptr<Obj> get() {
        return o;
    }
    std::uintptr_t expect() {
        return (std::uintptr_t)o.get();
    }
};

template<class P>
struct Holder<P, y2::virtual_<const std::shared_ptr<Obj>&>> {
    const std::shared_ptr<Obj>* o;
    Holder(const CallArg* a, int& vi, int) {
        o = g_csp[a[vi].cls][a[vi].alias];
        ++vi;
    }
    const std::shared_ptr<Obj>& get() {
        return *o;
    }
    std::uintptr_t expect() {
        return (std::uintptr_t)o->get();
    }
};

template<class P>
struct Holder<P, y2::virtual_ptr<Obj, P>> {
    std::optional<VPtr<P>> p;
    Holder(const CallArg* a, int& vi, int) {
        auto& ca = a[vi];
        ++vi;
        if (ca.vslot >= 0)
            p.emplace(*Held<P>::plain[ca.vslot]);
        else
            p.emplace(make_vp<P>(ca.cls, ca.alias, ca.route & 0xff,
                                 (ca.route & 0x100) != 0));
    }
    VPtr<P> get() {
        return *p;
    }
    std::uintptr_t expect() {
        return (std::uintptr_t)p->get();
    }
};

template<class P>
struct Holder<P, const y2::virtual_ptr<Obj, P>&> : Holder<P, VPtr<P>> {
    using Holder<P, VPtr<P>>::Holder;
    const VPtr<P>& get() {
        return *this->p;
    }
};

template<class P>
struct Holder<P, y2::virtual_ptr<std::shared_ptr<Obj>, P>> {
    std::optional<VSPtr<P>> p;
    Holder(const CallArg* a, int& vi, int) {
        auto& ca = a[vi];
        ++vi;
        if (ca.vslot >= 0)
            p.emplace(*Held<P>::shared[ca.vslot]);
        else
            p.emplace(make_vsp<P>(ca.cls, ca.alias, ca.route & 0xff));
    }
    VSPtr<P> get() {
        return *p;
    }
    std::uintptr_t expect() {
        return (std::uintptr_t)p->get().get();
    }
};

// ---------------------------------------------------------------------------
// per-slot typed operations

template<class P, int Slot>
using SigOf = boost::mp11::mp_at_c<typename Sigs<P>::list, Slot>;

template<class P, int Slot>
using Meth = y2::method<key<Slot>, SigOf<P, Slot>, P>;

template<class P, int Slot, int D>
inline typename Meth<P, Slot>::next_type next_cell_v = nullptr;

template<class P, int Slot, int D, class Sig>
struct BodyT;

template<class P, int Slot, int D, class... A>
struct BodyT<P, Slot, D, int(A...)> {
    static int fn(y2::detail::remove_virtual<A>... a) {
        auto& t = tls();
        if (t.nframes < 4) {
            Frame& f = t.frames[t.nframes++];
            f.slot = Slot;
            f.body = D;
            f.n = 0;
            (..., (f.echo[f.n++] = echo(a)));
        }
        if (g.probe_fd >= 0)
            probe_write("B %d %d\n", Slot, D);
        if (t.follow_next && t.depth == 0) {
            t.depth = 1;
            next_cell_v<P, Slot, D>(
                std::forward<y2::detail::remove_virtual<A>>(a)...);
        }
        return D;
    }
};

struct SlotVT {
    const char* kinds;
    int arity;
    int nparams;
    void (*load)(tid* vp_begin, tid* vp_end);
    void (*unload)();
    void* (*method_info)();
    std::size_t* (*slots_strides)();
    std::uintptr_t (*body_pf)(int body);
    void** (*next_cell)(int body);
    void (*call)(const CallArg* args, bool resolve_only, CallOut& out);
    void (*recycle)();
    std::size_t* (*st_slots)();   // static_offsets<M>::slots, or null
    std::size_t* (*st_strides)(); // static_offsets<M>::strides, or null
};

template<class P, int Slot, class Sig, class BodySeq>
struct SlotOps;

template<class P, int Slot, class... A, std::size_t... D>
struct SlotOps<P, Slot, int(A...), std::index_sequence<D...>> {
    using M = Meth<P, Slot>;
    static constexpr char kinds[sizeof...(A) + 1] = {KindOf<P, A>::c..., 0};

    static void load(tid* vp_begin, tid* vp_end) {
        // a freshly loaded image: zeroed storage, then the real constructor
        std::memset((void*)&M::fn, 0, sizeof(M::fn));
        new (&M::fn) M();
        M::fn.vp_begin = vp_begin;
        M::fn.vp_end = vp_end;
        std::memset(M::slots_strides, 0, sizeof(M::slots_strides));
    }
    static void unload() {
        M::fn.~M();
        std::memset((void*)&M::fn, 0, sizeof(M::fn));
    }
    static void recycle() {
        // the registration object goes away and comes back in place (its
        // storage is not given back in between): the definitions registered
        // with it stay in its catalog
        tid* b = M::fn.vp_begin;
        tid* e = M::fn.vp_end;
        M::fn.~M();
        new (&M::fn) M();
        M::fn.vp_begin = b;
        M::fn.vp_end = e;
    }
    static void* method_info() {
        return static_cast<y2::detail::method_info*>(&M::fn);
    }
    static std::size_t* slots_strides() {
        return M::slots_strides;
    }
    static std::uintptr_t body_pf(int body) {
        static constexpr typename M::function_pointer_type tbl[] = {
            &BodyT<P, Slot, (int)D, int(A...)>::fn...};
        return (std::uintptr_t)tbl[body];
    }
    static void** next_cell(int body) {
        static void** tbl[] = {
            reinterpret_cast<void**>(&next_cell_v<P, Slot, (int)D>)...};
        return tbl[body];
    }

    template<std::size_t... N>
    static void call_impl(
        const CallArg* args, bool resolve_only, CallOut& out,
        std::index_sequence<N...>) {
        int vi = 0;
        // braced init: holders are built left to right
        std::tuple<Holder<P, A>...> h{
            Holder<P, A>(args, vi, 1000 + 37 * (int)N)...};
        out.nparams = (int)sizeof...(A);
        ((out.expect_echo[N] = std::get<N>(h).expect()), ...);
        if (resolve_only) {
            out.pf = (std::uintptr_t)M::fn.resolve(
                y2::detail::argument_traits<P, A>::rarg(
                    std::get<N>(h).get())...);
        } else {
            out.ret = M::fn(std::get<N>(h).get()...);
        }
        out.returned = true;
    }

    static void call(const CallArg* args, bool resolve_only, CallOut& out) {
        call_impl(
            args, resolve_only, out, std::make_index_sequence<sizeof...(A)>());
    }

    static std::size_t* st_slots() {
        if constexpr (y2::detail::has_static_offsets<M>::value)
            return y2::detail::static_offsets<M>::slots;
        else
            return nullptr;
    }
    static std::size_t* st_strides() {
        if constexpr (y2::detail::has_static_offsets<M>::value)
            return y2::detail::static_offsets<M>::strides;
        else
            return nullptr;
    }

    static constexpr SlotVT vt = {
        kinds,        (int)M::arity, (int)sizeof...(A), &load,
        &unload,      &method_info,  &slots_strides,    &body_pf,
        &next_cell,   &call,         &recycle,          &st_slots,
        &st_strides};
};

template<class P, class Seq>
struct SlotTable;
template<class P, std::size_t... S>
struct SlotTable<P, std::index_sequence<S...>> {
    static constexpr const SlotVT* vt[sizeof...(S)] = {
        &SlotOps<P, (int)S, SigOf<P, (int)S>,
                 std::make_index_sequence<MAXBODY>>::vt...};
};

// ---------------------------------------------------------------------------
// detection of handler members

template<class P, class = void>
struct has_call_error : std::false_type {};
template<class P>
struct has_call_error<P, std::void_t<decltype(P::call_error)>>
    : std::true_type {};

// ---------------------------------------------------------------------------
// the allocation fault (operator new is replaced in alloc.cpp)

struct AllocArm {
    explicit AllocArm(long long fail_at) {
        g.alloc_count = 0;
        g.alloc_countdown = fail_at;
        g.alloc_armed = true;
    }
    ~AllocArm() {
        g.alloc_armed = false;
        g.alloc_countdown = -1;
    }
};

// ---------------------------------------------------------------------------

template<class P>
struct WorldT : PolicyOps {
    using Slots = SlotTable<P, std::make_index_sequence<NSLOTS>>;

    static constexpr bool kHash = P::template has_facet<y2::policy::type_hash>;
    static constexpr bool kChecked =
        P::template has_facet<y2::policy::runtime_checks>;
    static constexpr bool kIndirect =
        P::template has_facet<y2::policy::indirect_vptr>;
    static constexpr bool kDeferred =
        std::is_base_of_v<y2::policy::deferred_static_rtti, P>;
    static constexpr bool kStd = std::is_base_of_v<y2::policy::std_rtti, P>;
    static constexpr bool kThrows =
        std::is_base_of_v<y2::policy::throw_error, P>;
    static constexpr bool kCompat = has_call_error<P>::value;
    static constexpr bool kTrace =
        P::template has_facet<y2::policy::trace_output>;
    template<class Q, class = void>
    struct vptrs_is_map : std::false_type {};
    template<class Q>
    struct vptrs_is_map<
        Q, std::void_t<typename decltype(Q::vptrs)::key_type>>
        : std::true_type {};
    static constexpr bool kMap = vptrs_is_map<P>::value;

    // storage for registration records: static storage duration, zeroed
    alignas(16) static inline unsigned char
        class_store[MAXREC][sizeof(y2::detail::class_info)];
    static inline tid class_bases[MAXREC][MAXBASES + 1];
    static inline bool class_live[MAXREC];
    alignas(16) static inline unsigned char
        def_store[MAXREC][sizeof(y2::detail::definition_info)];
    static inline tid def_vp[MAXREC][8];
    static inline bool def_live[MAXREC];
    static inline int def_slot[MAXREC];
    static inline tid meth_vp[NSLOTS][8];
    static inline bool meth_live[NSLOTS];
    static inline int handler_mode = HM_DEFAULT;
    static inline int self_uid = -1;
    static inline y2::error_handler_type shipped_error;
    static inline y2::method_call_error_handler shipped_call_error = nullptr;

    static y2::detail::class_info* ci(int rec) {
        return reinterpret_cast<y2::detail::class_info*>(class_store[rec]);
    }
    static y2::detail::definition_info* di(int rec) {
        return reinterpret_cast<y2::detail::definition_info*>(def_store[rec]);
    }

    template<std::size_t... C>
    static tid typeid_of(int cls, std::index_sequence<C...>) {
        static const std::type_info* tbl[] = {&typeid(K<(int)C>)...};
        return (tid)tbl[cls];
    }
    template<std::size_t... CA>
    static tid idfn_of(int cls, int alias, std::index_sequence<CA...>) {
        using fn = y2::type_id (*)();
        static const fn tbl[] = {
            &idfn<(int)(CA / MAXALIAS), (int)(CA % MAXALIAS)>...};
        return (tid)tbl[cls * MAXALIAS + alias];
    }

    // what a registration record holds for (class, alias)
    static tid rec_id(int cls, int alias) {
        if constexpr (kStd) {
            return typeid_of(cls, std::make_index_sequence<MAXC>());
        } else if constexpr (kDeferred) {
            return idfn_of(
                cls, alias, std::make_index_sequence<MAXC * MAXALIAS>());
        } else {
            return g.ids[cls][alias];
        }
    }

    tid class_id(int cls, int alias) override {
        if constexpr (kStd) {
            return typeid_of(cls, std::make_index_sequence<MAXC>());
        } else {
            return g.ids[cls][alias];
        }
    }

    WorldT(const char* n) {
        name = n;
        nslots = NSLOTS;
        caps.hash = kHash;
        caps.checked = kChecked;
        caps.lookup_checked = kChecked &&
            !std::is_same_v<P, y2::policy::release_shared>;
        caps.indirect = kIndirect;
        caps.map = kMap;
        caps.deferred = kDeferred;
        caps.stdrtti = kStd;
        caps.throws = kThrows;
        caps.vectored = !kThrows;
        caps.compat = kCompat;
        caps.trace = kTrace;
        caps.small_ids = !kHash && !kMap;
        caps.static_offsets = Slots::vt[0]->st_slots() != nullptr;
        uid = (int)all_policies().size();
        self_uid = uid;
        all_policies().push_back(this);
    }

    void init() override {
        // the pool's method objects registered themselves during static
        // initialisation; take them out, as if their images were not loaded
        for (int s = 0; s < NSLOTS; ++s) {
            Slots::vt[s]->unload();
            meth_live[s] = false;
        }
        if constexpr (!kThrows) {
            shipped_error = P::error;
        }
        if constexpr (kCompat) {
            shipped_call_error = P::call_error;
        }
        handler_mode = HM_DEFAULT;
    }

    void reset() override {
        for (int r = 0; r < MAXREC; ++r)
            if (def_live[r])
                unload_def(r);
        for (int s = 0; s < NSLOTS; ++s)
            if (meth_live[s])
                unload_method(s);
        for (int r = 0; r < MAXREC; ++r)
            if (class_live[r])
                unload_class(r);
        for (int i = 0; i < MAXVP; ++i) {
            Held<P>::plain[i].reset();
            Held<P>::shared[i].reset();
        }
        std::vector<std::uintptr_t>().swap(P::dispatch_data);
        if constexpr (kMap) {
            decltype(P::vptrs)().swap(P::vptrs);
        } else {
            std::vector<const std::uintptr_t*>().swap(P::vptrs);
        }
        if constexpr (kIndirect) {
            std::vector<std::uintptr_t const* const*>().swap(
                P::indirect_vptrs);
        }
        if constexpr (kHash) {
            P::hash_mult = 0;
            P::hash_shift = 0;
            P::hash_length = 0;
            P::hash_min = 0;
            P::hash_max = 0;
        }
        if constexpr (kChecked) {
            std::vector<y2::type_id>().swap(P::control);
        }
        for (int c = 0; c < MAXC; ++c)
            *Makers<P>::svp[c] = nullptr;
        if constexpr (kTrace) {
            P::trace_enabled = false;
        }
        set_handler(HM_DEFAULT);
        std::free(decoded_block);
        decoded_block = nullptr;
        decoded_size = 0;
#ifndef YS_NO_GLUE
        if constexpr (kStd) {
            glue_new_generator<P>(); // the generator object of a new process
        }
#endif
        for (int sl = 0; sl < NSLOTS; ++sl)
            if (auto a = Slots::vt[sl]->st_slots()) {
                std::memset(a, 0, 8 * sizeof(std::size_t));
                std::memset(Slots::vt[sl]->st_strides(), 0,
                            8 * sizeof(std::size_t));
            }
    }

    // ---- C12: the static-offset generator and its "compiled" output

    std::string gen_offsets(int slot, bool fresh_generator) override {
#ifndef YS_NO_GLUE
        if constexpr (kStd) {
            return glue_offsets<P>(slot, fresh_generator);
        }
#endif
        (void)slot;
        (void)fresh_generator;
        return "";
    }

    void set_offsets(
        int slot, const std::vector<std::size_t>& slots,
        const std::vector<std::size_t>& strides) override {
        auto a = Slots::vt[slot]->st_slots();
        auto b = Slots::vt[slot]->st_strides();
        if (!a)
            return;
        for (std::size_t i = 0; i < 8; ++i) {
            a[i] = i < slots.size() ? slots[i] : 0;
            b[i] = i < strides.size() ? strides[i] : 0;
        }
    }

    // ---- C13: decode_dispatch_data on the emitted text

    // the emitted object, laid out as the emitted struct declaration says, in
    // one heap block of exactly its size (AddressSanitizer guards both ends)
    static inline unsigned char* decoded_block = nullptr;
    static inline std::size_t decoded_size = 0;

    DecodeOut decode(const std::string& text, const Event& ev) override {
        DecodeOut out;
        EmittedData em;
        out.parse_why = parse_emitted(text, em);
        if (!out.parse_why.empty())
            return out;
        out.parsed = true;
        out.headroom = em.headroom;
        out.nslots = em.nslots;
        out.nvtbls = em.nvtbls;
        out.ndecoded = em.ndecoded;
        out.ndtbls = em.ndtbls;
        std::free(decoded_block);
        DecodeView d;
        decoded_block = layout_emitted(em, d, decoded_size);
        g.hash_seed = ev.hash_seed;
        g.hash_budget = ev.hash_budget;
        guarded(out.err, [&] {
            y2::decode_dispatch_data<P>(d);
            out.completed = true;
        });
        g.hash_seed = 0;
        g.hash_budget = 0;
        return out;
    }

    std::string pristine() override {
        if (!P::classes.empty())
            return "classes catalog not empty";
        if (!P::methods.empty())
            return "methods catalog not empty";
        if (!P::dispatch_data.empty() || P::dispatch_data.capacity())
            return "dispatch_data";
        if (!P::vptrs.empty())
            return "vptrs";
        if constexpr (kHash) {
            if (P::hash_mult || P::hash_shift || P::hash_length ||
                P::hash_min || P::hash_max)
                return "hash parameters";
        }
        if constexpr (kChecked) {
            if (!P::control.empty())
                return "control";
        }
        if constexpr (kIndirect) {
            if (!P::indirect_vptrs.empty())
                return "indirect_vptrs";
        }
        for (int c = 0; c < MAXC; ++c)
            if (*Makers<P>::svp[c])
                return "static vptr";
        return "";
    }

    static tid* fill_ids(tid* arr, const std::vector<IdRef>& v) {
        std::size_t n = 0;
        for (auto& r : v)
            arr[n++] = rec_id(r.cls, r.alias);
        arr[n] = 0; // deferred: "not resolved yet" flag word
        return arr + n;
    }

    void load_class(
        int rec, int cls, int alias, const std::vector<IdRef>& bases,
        bool is_abstract) override {
        // mirrors class_declaration_aux's constructor, on zeroed storage
        std::memset(class_store[rec], 0, sizeof class_store[rec]);
        auto c = new (class_store[rec]) y2::detail::class_info;
        c->type = rec_id(cls, alias);
        if (bases.empty()) {
            c->first_base = nullptr; // type_id_list<Policy, types<>>
            c->last_base = nullptr;
        } else {
            c->first_base = class_bases[rec];
            c->last_base = fill_ids(class_bases[rec], bases);
        }
        P::classes.push_back(*c);
        c->is_abstract = is_abstract;
        c->static_vptr = Makers<P>::svp[cls];
        class_live[rec] = true;
    }

    void unload_class(int rec) override {
        P::classes.remove(*ci(rec)); // ~class_declaration_aux
        std::memset(class_store[rec], 0, sizeof class_store[rec]);
        class_live[rec] = false;
    }

    void
    load_method(int rec, int slot, const std::vector<IdRef>& vp) override {
        (void)rec;
        tid* end = fill_ids(meth_vp[slot], vp);
        Slots::vt[slot]->load(meth_vp[slot], end);
        meth_live[slot] = true;
    }

    void unload_method(int slot) override {
        Slots::vt[slot]->unload();
        meth_live[slot] = false;
    }

    void recycle_method(int slot) override {
        Slots::vt[slot]->recycle();
    }

    void load_def(
        int rec, int slot, int body, const std::vector<IdRef>& vp,
        bool with_next) override {
        // mirrors method::add_function's constructor
        std::memset(def_store[rec], 0, sizeof def_store[rec]);
        auto d = new (def_store[rec]) y2::detail::definition_info;
        auto m =
            static_cast<y2::detail::method_info*>(Slots::vt[slot]->method_info());
        d->method = m;
        d->type = P::template static_type<int>();
        *Slots::vt[slot]->next_cell(body) = nullptr;
        // add_function(next_type* next = nullptr): the slot is optional
        d->next = with_next ? Slots::vt[slot]->next_cell(body) : nullptr;
        d->pf = (void*)Slots::vt[slot]->body_pf(body);
        d->vp_begin = def_vp[rec];
        d->vp_end = fill_ids(def_vp[rec], vp);
        m->specs.push_back(*d);
        def_live[rec] = true;
        def_slot[rec] = slot;
    }

    void unload_def(int rec) override {
        di(rec)->~definition_info();
        std::memset(def_store[rec], 0, sizeof def_store[rec]);
        def_live[rec] = false;
    }

    // ---- handlers

    static void on_error(const y2::error_type& ev) {
        ErrInfo info;
        fill_err(info, ev);
        info.handler_uid = self_uid;
        info.handler_calls = ++tls().handler_calls;
        if constexpr (kStd) {
            // what the shipped handler does with a resolution error before it
            // aborts: the name of every reported type, through the policy's
            // rtti facet (two failing calls on two threads are both in there)
            if (info.alt == EA_RESOLUTION) {
                null_stream ns;
                for (std::size_t i = 0; i < info.arity && i < 16; ++i)
                    P::type_name(info.types[i], ns);
            }
        }
        if (g.probe_fd >= 0)
            probe_write(
                "H %d %d %llu %llu\n", info.alt, info.status,
                (unsigned long long)info.arity, (unsigned long long)info.type);
        if (handler_mode == HM_RETURNS)
            return;
        throw SimThrow{info};
    }

    static void on_call_error(
        const y2::method_call_error& error, std::size_t arity,
        y2::type_id* types) {
        ErrInfo info;
        info.alt = EA_RESOLUTION;
        info.status = error.code;
        info.arity = arity;
        for (std::size_t i = 0; i < arity && i < 16; ++i)
            info.types[i] = types[i];
        info.via_call_error = 1;
        info.handler_uid = self_uid;
        info.handler_calls = ++tls().handler_calls;
        if (g.probe_fd >= 0)
            probe_write(
                "H %d %d %llu 0\n", info.alt, info.status,
                (unsigned long long)arity);
        if (handler_mode == HM_RETURNS)
            return;
        throw SimThrow{info};
    }

    void set_handler(int mode) override {
        handler_mode = mode;
        if constexpr (!kThrows) {
            if (mode == HM_DEFAULT || mode == HM_CALL_ERROR)
                P::error = shipped_error;
            else
                P::error = &on_error;
        }
        if constexpr (kCompat) {
            if (mode == HM_CALL_ERROR)
                P::call_error = &on_call_error;
            else
                P::call_error = shipped_call_error;
        }
    }

    template<class F>
    static void guarded(ErrInfo& err, F&& f) {
        tls().handler_calls = 0;
        try {
            f();
        } catch (SimThrow& e) {
            err = e.info;
        } catch (y2::resolution_error& e) {
            fill_err(err, y2::error_type(e));
        } catch (y2::unknown_class_error& e) {
            fill_err(err, y2::error_type(e));
        } catch (y2::hash_search_error& e) {
            fill_err(err, y2::error_type(e));
        } catch (y2::method_table_error& e) {
            fill_err(err, y2::error_type(e));
        } catch (y2::static_slot_error& e) {
            fill_err(err, y2::error_type(e));
        } catch (y2::static_stride_error& e) {
            fill_err(err, y2::error_type(e));
        } catch (y2::error&) {
            err.alt = EA_GENERIC;
        } catch (std::bad_alloc&) {
            err.alt = EA_BAD_ALLOC;
        } catch (...) {
            err.alt = EA_OTHER;
        }
        if (kThrows && err.alt != EA_NONE && err.alt != EA_BAD_ALLOC &&
            err.alt != EA_OTHER)
            err.handler_calls = 1;
    }

    UpdateOut update(const Event& ev) override {
        UpdateOut out;
        g.hash_seed = ev.hash_seed;
        g.hash_budget = ev.hash_budget;
        if constexpr (kTrace) {
            P::trace_enabled = ev.trace != 0;
        }
        guarded(out.err, [&] {
            AllocArm arm(ev.alloc_fail_at);
            auto compiler = y2::update<P>();
            g.alloc_armed = false;
            out.allocs = g.alloc_count;
            out.report.cells = compiler.report.cells;
            out.report.concrete_cells = compiler.report.concrete_cells;
            out.report.not_implemented = compiler.report.not_implemented;
            out.report.concrete_not_implemented =
                compiler.report.concrete_not_implemented;
            out.report.ambiguous = compiler.report.ambiguous;
            out.report.concrete_ambiguous = compiler.report.concrete_ambiguous;
            for (auto& m : compiler.methods)
                if (m.arity() > 1)
                    out.multi_cells += m.dispatch_table.size();
#ifndef YS_NO_GLUE
            if constexpr (kStd) {
                if (ev.encode) {
                    g.alloc_armed = false;
                    out.encoded = glue_encode<P>(compiler, name.c_str());
                }
            }
#endif
            out.completed = true;
        });
        if (out.completed && decoded_block) {
            // update moved every v-table pointer to dispatch_data
            std::free(decoded_block);
            decoded_block = nullptr;
            decoded_size = 0;
        }
        if (!out.completed)
            out.allocs = g.alloc_count;
        g.hash_seed = 0;
        g.hash_budget = 0;
        if constexpr (kTrace) {
            P::trace_enabled = false;
        }
        return out;
    }

    CallOut call(
        int slot, const CallArg* args, int nargs, bool resolve_only,
        bool follow_next, int final_as) override {
        (void)nargs;
        (void)final_as;
        CallOut out;
        auto& t = tls();
        t.nframes = 0;
        t.follow_next = follow_next;
        t.depth = 0;
        guarded(out.err, [&] {
            Slots::vt[slot]->call(args, resolve_only, out);
        });
        t.follow_next = false;
        out.nframes = t.nframes;
        for (int i = 0; i < t.nframes; ++i)
            out.frames[i] = t.frames[i];
        return out;
    }

    ErrInfo
    vp_make(int vslot, int cls, int alias, int route, bool shared) override {
        ErrInfo err;
        Held<P>::plain[vslot].reset();
        Held<P>::shared[vslot].reset();
        guarded(err, [&] {
            if (shared)
                Held<P>::shared[vslot].emplace(make_vsp<P>(cls, alias, route));
            else
                Held<P>::plain[vslot].emplace(
                    make_vp<P>(cls, alias, route & 0xff, (route & 0x100) != 0));
        });
        return err;
    }

    void vp_copy(int to, int from, int how) override {
        if (Held<P>::plain[from]) {
            if (how == 1) {
                VPtr<P> tmp(*Held<P>::plain[from]);
                Held<P>::plain[to].emplace(std::move(tmp));
            } else {
                const VPtr<P>& src = *Held<P>::plain[from];
                Held<P>::plain[to].emplace(src);
            }
            Held<P>::shared[to].reset();
        } else if (Held<P>::shared[from]) {
            if (how == 1) {
                VSPtr<P> tmp(*Held<P>::shared[from]);
                Held<P>::shared[to].emplace(std::move(tmp));
            } else {
                const VSPtr<P>& src = *Held<P>::shared[from];
                Held<P>::shared[to].emplace(src);
            }
            Held<P>::plain[to].reset();
        }
    }

    void vp_drop(int vslot) override {
        Held<P>::plain[vslot].reset();
        Held<P>::shared[vslot].reset();
    }

    VpInfo vp_info(int vslot) override {
        VpInfo i;
        if (Held<P>::plain[vslot]) {
            auto& p = *Held<P>::plain[vslot];
            i.live = true;
            i.obj = (std::uintptr_t)p.get();
            // all three accessors must agree
            if ((std::uintptr_t) & *p != i.obj ||
                (std::uintptr_t)p.operator->() != i.obj)
                i.obj = 1;
            i.vptr = (std::uintptr_t)p._vptr();
        } else if (Held<P>::shared[vslot]) {
            auto& p = *Held<P>::shared[vslot];
            i.live = true;
            i.obj = (std::uintptr_t)p.get().get();
            if ((std::uintptr_t) & *p != i.obj ||
                (std::uintptr_t)p.operator->().get() != i.obj)
                i.obj = 1;
            i.vptr = (std::uintptr_t)p._vptr();
            i.use_count = p.get().use_count();
        }
        return i;
    }

    // ---- catalogs, as the real lists enumerate them

    std::vector<int> cat_classes() override {
        std::vector<int> v;
        for (auto& c : P::classes) {
            auto off = reinterpret_cast<unsigned char*>(&c) -
                reinterpret_cast<unsigned char*>(class_store);
            if (off < 0 || off >= (long)sizeof class_store ||
                off % sizeof(class_store[0]))
                v.push_back(-1);
            else
                v.push_back((int)(off / sizeof(class_store[0])));
            if (v.size() > 4 * MAXREC)
                break; // corrupted list: do not loop for ever
        }
        return v;
    }

    std::vector<int> cat_methods() override {
        std::vector<int> v;
        for (auto& m : P::methods) {
            int found = -1;
            for (int s = 0; s < NSLOTS; ++s)
                if (Slots::vt[s]->method_info() == (void*)&m)
                    found = s;
            v.push_back(found);
            if (v.size() > 4 * NSLOTS)
                break;
        }
        return v;
    }

    std::vector<int> cat_defs(int slot) override {
        std::vector<int> v;
        auto m =
            static_cast<y2::detail::method_info*>(Slots::vt[slot]->method_info());
        for (auto& d : m->specs) {
            auto off = reinterpret_cast<unsigned char*>(&d) -
                reinterpret_cast<unsigned char*>(def_store);
            if (off < 0 || off >= (long)sizeof def_store ||
                off % sizeof(def_store[0]))
                v.push_back(-1);
            else
                v.push_back((int)(off / sizeof(def_store[0])));
            if (v.size() > 4 * MAXREC)
                break;
        }
        return v;
    }

    void cat_sizes(
        std::size_t& ncls, std::size_t& nmeth, bool& ecls,
        bool& emeth) override {
        ecls = P::classes.empty();
        emeth = P::methods.empty();
        ncls = ecls ? 0 : P::classes.size();
        nmeth = emeth ? 0 : P::methods.size();
    }

    std::size_t cat_defs_size(int slot, bool& empty) override {
        auto m =
            static_cast<y2::detail::method_info*>(Slots::vt[slot]->method_info());
        empty = m->specs.empty();
        return empty ? 0 : m->specs.size();
    }

    // ---- installed data

    Snap snap() override {
        Snap s;
        s.dd_begin = (std::uintptr_t)P::dispatch_data.data();
        s.dd_end = (std::uintptr_t)(P::dispatch_data.data() +
                                    P::dispatch_data.size());
        if (decoded_block) {
            // after decode_dispatch_data the tables live in the emitted object
            s.dd_begin = (std::uintptr_t)decoded_block;
            s.dd_end = s.dd_begin + decoded_size;
        }
        for (int c = 0; c < MAXC; ++c)
            s.static_vptr[c] = (std::uintptr_t)*Makers<P>::svp[c];
        for (int c = 0; c < MAXC; ++c)
            s.static_vptr_addr[c] = (std::uintptr_t)Makers<P>::svp[c];
        if constexpr (kHash) {
            s.hash_mult = P::hash_mult;
            s.hash_shift = P::hash_shift;
            s.hash_length = P::hash_length;
            s.hash_min = P::hash_min;
            s.hash_max = P::hash_max;
        }
        s.vptrs_size = P::vptrs.size();
        if constexpr (kChecked) {
            s.control_size = P::control.size();
        }
        if constexpr (kIndirect) {
            s.indirect_size = P::indirect_vptrs.size();
        }
        if constexpr (!kThrows) {
            auto target = P::error.template target<void (*)(
                const y2::error_type&)>();
            s.handler_is_ours = target && *target == &on_error;
        }
        return s;
    }

    bool slot_info(int slot, SlotInfo& out) override {
        auto vt = Slots::vt[slot];
        out.kinds = vt->kinds;
        out.arity = vt->arity;
        out.nparams = vt->nparams;
        auto ss = vt->slots_strides();
        for (int i = 0; i < 2 * vt->arity - 1; ++i)
            out.slots_strides[i] = ss[i];
        auto m = static_cast<y2::detail::method_info*>(vt->method_info());
        out.pf_not_implemented = (std::uintptr_t)m->not_implemented;
        out.pf_ambiguous = (std::uintptr_t)m->ambiguous;
        out.has_static = vt->st_slots() != nullptr;
        if (out.has_static)
            for (int i = 0; i < 8; ++i) {
                out.st_slots[i] = vt->st_slots()[i];
                out.st_strides[i] = vt->st_strides()[i];
            }
        return meth_live[slot];
    }

    std::uintptr_t body_pf(int slot, int body) override {
        return Slots::vt[slot]->body_pf(body);
    }

    std::uintptr_t next_cell(int slot, int body) override {
        return (std::uintptr_t)*Slots::vt[slot]->next_cell(body);
    }

    // bounds-checked re-statement of Policy::dynamic_vptr, for pre-flight
    Lookup lookup(tid id) override {
        Lookup l;
        if constexpr (kMap) {
            auto it = P::vptrs.find(id);
            if (it == P::vptrs.end())
                return l;
            l.ok = true;
            l.vptr = (std::uintptr_t)it->second;
            return l;
        } else {
            std::size_t index = id;
            if constexpr (kHash) {
                index = (P::hash_mult * id) >> P::hash_shift;
                if constexpr (kChecked) {
                    if (index >= P::hash_length ||
                        index >= P::control.size() ||
                        P::control[index] != id) {
                        l.rejected = true;
                        return l;
                    }
                }
            }
            l.index = index;
            if (index >= P::vptrs.size())
                return l;
            l.ok = true;
            l.vptr = (std::uintptr_t)P::vptrs[index];
            if constexpr (kIndirect) {
                if (index >= P::indirect_vptrs.size()) {
                    l.ok = false;
                    return l;
                }
                l.indirect = (std::uintptr_t)P::indirect_vptrs[index];
            }
            return l;
        }
    }

    // everything update<P> publishes and the call path reads
    std::uint64_t published_checksum() override {
        Hash h;
        for (auto w : P::dispatch_data)
            h.u64(w);
        h.u64((std::uintptr_t)P::dispatch_data.data());
        if constexpr (kMap) {
            std::uint64_t acc = 0;
            for (auto& kv : P::vptrs)
                acc += kv.first * 31 + (std::uintptr_t)kv.second;
            h.u64(acc);
        } else {
            for (auto p : P::vptrs)
                h.u64((std::uintptr_t)p);
        }
        if constexpr (kHash) {
            h.u64(P::hash_mult);
            h.u64(P::hash_shift);
            h.u64(P::hash_length);
        }
        if constexpr (kChecked) {
            for (auto c : P::control)
                h.u64(c);
        }
        if constexpr (kIndirect) {
            for (auto p : P::indirect_vptrs)
                h.u64((std::uintptr_t)p);
        }
        for (int c = 0; c < MAXC; ++c)
            h.u64((std::uintptr_t)*Makers<P>::svp[c]);
        for (int s = 0; s < NSLOTS; ++s) {
            if (!meth_live[s])
                continue;
            auto vt = Slots::vt[s];
            auto ss = vt->slots_strides();
            for (int i = 0; i < 2 * vt->arity - 1; ++i)
                h.u64(ss[i]);
            for (int b = 0; b < MAXBODY; ++b)
                h.u64((std::uintptr_t)*vt->next_cell(b));
        }
        return h.h;
    }
};

} // namespace ys
