#include "pols.hpp"
namespace ys {
static WorldT<pol::vecx> the_world("vecx");
}
