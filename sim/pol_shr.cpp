#include "pols.hpp"
namespace ys {
static WorldT<pol::shr> the_world("shr");
}
