#include "pols.hpp"
namespace ys {
static WorldT<pol::ind> the_world("ind");
}
