#include "plan.hpp"

namespace ys {

static J ints(const std::vector<int>& v) {
    return J::arr_of(v);
}

J event_to_json(const Event& e) {
    J o = J::obj();
    o.set("op", op_name(e.op));
    switch (e.op) {
    case OP_LOAD:
    case OP_UNLOAD:
    case OP_RECYCLE:
        o.set("recs", ints(e.recs));
        break;
    case OP_UPDATE:
        o.set("pol", e.pol);
        if (e.hash_seed)
            o.set("hash_seed", J((unsigned long long)e.hash_seed));
        if (e.hash_budget)
            o.set("hash_budget", J((unsigned long long)e.hash_budget));
        if (e.alloc_fail_at >= 0)
            o.set("alloc_fail_at", J(e.alloc_fail_at));
        if (e.alloc_fail_from_end >= 0)
            o.set("alloc_fail_from_end", e.alloc_fail_from_end);
        if (e.trace)
            o.set("trace", e.trace);
        if (e.encode)
            o.set("encode", e.encode);
        if (e.compile)
            o.set("compile", e.compile);
        break;
    case OP_OFFSETS:
        o.set("pol", e.pol);
        o.set("per_method", e.per_method);
        if (e.fresh_gen)
            o.set("fresh_gen", e.fresh_gen);
        if (e.compile)
            o.set("compile", e.compile);
        if (e.stale)
            o.set("stale", e.stale);
        if (e.meth >= 0) {
            o.set("meth", e.meth);
            o.set("ppos", e.ppos);
            o.set("pdelta", J(e.pdelta));
        }
        break;
    case OP_RESTART:
        o.set("pol", e.pol);
        break;
    case OP_DECODE:
        o.set("pol", e.pol);
        if (e.hash_seed)
            o.set("hash_seed", J((unsigned long long)e.hash_seed));
        if (e.hash_budget)
            o.set("hash_budget", J((unsigned long long)e.hash_budget));
        break;
    case OP_CHECK:
        o.set("pol", e.pol);
        o.set("sample_seed", J((unsigned long long)e.sample_seed));
        o.set("max_tuples", e.max_tuples);
        o.set("routes", e.routes);
        o.set("call_next", e.call_next);
        break;
    case OP_RELOCATE: {
        o.set("cls", e.cls);
        J a = J::arr();
        for (auto x : e.ids)
            a.push(J((unsigned long long)x));
        o.set("ids", a);
        break;
    }
    case OP_HANDLER:
        o.set("pol", e.pol);
        o.set("mode", e.mode);
        break;
    case OP_CALL:
        o.set("pol", e.pol);
        o.set("meth", e.meth);
        o.set("args", ints(e.args));
        o.set("aliases", ints(e.aliases));
        o.set("rts", ints(e.rts));
        o.set("mode", e.mode);
        if (e.repeat != 1)
            o.set("repeat", e.repeat);
        if (e.fork)
            o.set("fork", e.fork);
        if (e.resolve)
            o.set("resolve", e.resolve);
        if (e.final_as >= 0)
            o.set("final_as", e.final_as);
        break;
    case OP_VP_MAKE:
        o.set("pol", e.pol);
        o.set("vslot", e.vslot);
        o.set("cls", e.cls);
        o.set("alias", e.alias);
        o.set("route", e.route);
        o.set("shared", e.shared);
        break;
    case OP_VP_COPY:
        o.set("pol", e.pol);
        o.set("vslot", e.vslot);
        o.set("vfrom", e.vfrom);
        o.set("route", e.route);
        break;
    case OP_VP_USE:
        o.set("pol", e.pol);
        o.set("vslot", e.vslot);
        o.set("meth", e.meth);
        o.set("args", ints(e.args));
        o.set("aliases", ints(e.aliases));
        break;
    case OP_VP_DROP:
        o.set("pol", e.pol);
        o.set("vslot", e.vslot);
        break;
    }
    return o;
}

J plan_to_json(const Plan& p) {
    J j = J::obj();
    j.set("seed", J((unsigned long long)p.seed));
    j.set("prop", p.prop);
    j.set("profile", p.profile);
    j.set("policies", J::arr_of(p.pols));
    j.set("allow_missing", p.allow_missing);
    if (p.abstract_args)
        j.set("abstract_args", p.abstract_args);
    j.set("heap_jitter", p.heap_jitter);
    if (p.setup_events)
        j.set("setup_events", p.setup_events);
    if (!p.diff.empty())
        j.set("diff", p.diff);
    if (!p.orders.empty()) {
        J o = J::arr();
        for (auto& v : p.orders)
            o.push(ints(v));
        j.set("orders", o);
    }
    J w = J::obj();
    w.set("ncls", p.w.ncls);
    J par = J::arr();
    for (auto& v : p.w.parents)
        par.push(ints(v));
    w.set("parents", par);
    w.set("abstract", ints(p.w.abstract));
    J ids = J::arr();
    for (auto& v : p.w.ids) {
        J a = J::arr();
        for (auto x : v)
            a.push(J((unsigned long long)x));
        ids.push(a);
    }
    w.set("ids", ids);
    j.set("world", w);
    J recs = J::arr();
    for (auto& r : p.recs) {
        J o = J::obj();
        switch (r.kind) {
        case RK_CLASS:
            o.set("k", "class");
            o.set("pol", r.pol);
            o.set("cls", r.cls);
            o.set("alias", r.alias);
            o.set("bases", ints(r.bases));
            break;
        case RK_METHOD:
            o.set("k", "method");
            o.set("pol", r.pol);
            o.set("slot", r.slot);
            o.set("vp", ints(r.vp));
            break;
        case RK_DEF:
            o.set("k", "def");
            o.set("pol", r.pol);
            o.set("meth", r.meth);
            o.set("body", r.body);
            if (r.nonext)
                o.set("nonext", r.nonext);
            o.set("vp", ints(r.vp));
            break;
        }
        recs.push(o);
    }
    j.set("recs", recs);
    J evs = J::arr();
    for (auto& e : p.events) {
        J o = event_to_json(e);
        evs.push(o);
    }
    j.set("events", evs);
    return j;
}

static int op_from(const std::string& s) {
    for (int i = 0; i < OP_COUNT; ++i)
        if (s == op_name(i))
            return i;
    throw std::runtime_error("unknown op " + s);
}

Event event_from_json(const J& o) {
    Event e;
    e.op = op_from(o.gets("op", ""));
    e.pol = (int)o.geti("pol", -1);
    if (o.has("recs"))
        e.recs = o.at("recs").ints();
    e.hash_seed = o.getu("hash_seed", 0);
    e.hash_budget = o.getu("hash_budget", 0);
    e.alloc_fail_at = o.geti("alloc_fail_at", -1);
    e.alloc_fail_from_end = (int)o.geti("alloc_fail_from_end", -1);
    e.trace = (int)o.geti("trace", 0);
    e.sample_seed = o.getu("sample_seed", 0);
    e.max_tuples = (int)o.geti("max_tuples", 400);
    e.routes = (int)o.geti("routes", 1);
    e.call_next = (int)o.geti("call_next", 1);
    e.cls = (int)o.geti("cls", -1);
    if (o.has("ids"))
        e.ids = o.at("ids").u64s();
    e.mode = (int)o.geti("mode", 0);
    e.meth = (int)o.geti("meth", -1);
    if (o.has("args"))
        e.args = o.at("args").ints();
    if (o.has("aliases"))
        e.aliases = o.at("aliases").ints();
    if (o.has("rts"))
        e.rts = o.at("rts").ints();
    e.repeat = (int)o.geti("repeat", 1);
    e.fork = (int)o.geti("fork", 0);
    e.resolve = (int)o.geti("resolve", 0);
    e.final_as = (int)o.geti("final_as", -1);
    e.vslot = (int)o.geti("vslot", -1);
    e.vfrom = (int)o.geti("vfrom", -1);
    e.alias = (int)o.geti("alias", 0);
    e.route = (int)o.geti("route", 0);
    e.shared = (int)o.geti("shared", 0);
    e.encode = (int)o.geti("encode", 0);
    e.per_method = (int)o.geti("per_method", 0);
    e.fresh_gen = (int)o.geti("fresh_gen", 0);
    e.compile = (int)o.geti("compile", 0);
    e.stale = (int)o.geti("stale", 0);
    e.ppos = (int)o.geti("ppos", 0);
    e.pdelta = o.geti("pdelta", 0);
    return e;
}

Plan plan_from_json(const J& j) {
    Plan p;
    p.seed = j.getu("seed", 0);
    p.prop = j.gets("prop", "");
    p.profile = j.gets("profile", "");
    for (auto& x : j.at("policies").a)
        p.pols.push_back(x.s);
    p.allow_missing = (int)j.geti("allow_missing", 0);
    p.abstract_args = (int)j.geti("abstract_args", 0);
    p.heap_jitter = (int)j.geti("heap_jitter", 0);
    p.diff = j.gets("diff", "");
    p.setup_events = (int)j.geti("setup_events", 0);
    if (j.has("orders"))
        for (auto& v : j.at("orders").a)
            p.orders.push_back(v.ints());
    auto& w = j.at("world");
    p.w.ncls = (int)w.geti("ncls", 0);
    for (auto& v : w.at("parents").a)
        p.w.parents.push_back(v.ints());
    p.w.abstract = w.at("abstract").ints();
    for (auto& v : w.at("ids").a)
        p.w.ids.push_back(v.u64s());
    for (auto& o : j.at("recs").a) {
        Rec r;
        auto k = o.gets("k", "");
        r.pol = (int)o.geti("pol", 0);
        if (k == "class") {
            r.kind = RK_CLASS;
            r.cls = (int)o.geti("cls", -1);
            r.alias = (int)o.geti("alias", 0);
            r.bases = o.at("bases").ints();
        } else if (k == "method") {
            r.kind = RK_METHOD;
            r.slot = (int)o.geti("slot", -1);
            r.vp = o.at("vp").ints();
        } else if (k == "def") {
            r.kind = RK_DEF;
            r.meth = (int)o.geti("meth", -1);
            r.body = (int)o.geti("body", -1);
            r.nonext = (int)o.geti("nonext", 0);
            r.vp = o.at("vp").ints();
        } else
            throw std::runtime_error("bad rec kind");
        p.recs.push_back(r);
    }
    for (auto& o : j.at("events").a) {
        Event e = event_from_json(o);
        p.events.push_back(e);
    }
    return p;
}

} // namespace ys
