// Plan interpreter and oracles.
#pragma once

#include "model.hpp"
#include "ops.hpp"

#include <functional>
#include <map>
#include <set>
#include <string>
#include <vector>

namespace ys {

struct Violation {
    std::string prop;   // property the oracle belongs to
    std::string oracle; // which oracle fired
    std::string cls;    // violation class (kept fixed while minimising)
    std::string detail; // human-readable
    int event = -1;
    J diag = J::obj(); // structured diagnosis
    std::string key() const {
        return prop + "/" + oracle + "/" + cls;
    }
};

struct Stats {
    std::uint64_t events = 0, loads = 0, unloads = 0, updates = 0,
                  updates_completed = 0, updates_aborted = 0, checks = 0,
                  tuples = 0, calls = 0, error_calls = 0, next_checked = 0,
                  cells_checked = 0, ids_checked = 0, rejects_checked = 0,
                  vp_made = 0, vp_used = 0, vp_survived_update = 0, forks = 0,
                  relocations = 0, variants = 0, hash_failures = 0,
                  alloc_failures = 0, unknown_class_reports = 0,
                  multi_applicable = 0, mi_classes = 0, ambiguous_cells = 0,
                  nodef_cells = 0, inconclusive = 0;
    std::map<std::string, std::uint64_t> faults; // fired, by kind
    // reach: completed updates by policy, tuples checked by method shape
    std::map<std::string, std::uint64_t> reach;
    void add(const Stats& o);
    J json() const;
};

enum RunStatus { RS_OK = 0, RS_VIOLATION = 1, RS_INVALID = 2 };

struct RunResult {
    int status = RS_OK;
    std::vector<Violation> v;
    // violations whose key the caller tolerates (known findings): recorded,
    // but they neither stop the run nor change its status
    std::vector<Violation> tolerated;
    std::string invalid_why;
    std::uint64_t evhash = 0;    // hash of the event log
    std::uint64_t signature = 0; // canonical state signature (distinctness)
    bool nontrivial = false;
    bool poisoned = false; // process state may be corrupt: do not run on
    Stats st;
    std::vector<std::string> log; // event log lines (when requested)
    // outcome tables observed at the last CHECK of each policy
    std::map<std::string, std::map<std::string, std::string>> tables;
    std::map<std::string, Registry> final_live; // per policy name
    World final_world;
};

struct ExecOpts {
    bool keep_log = false;
    bool stop_at_first = true; // stop at the first violation
    bool watch_isolation = false;
    // "solo" differential (C14): runs a plan restricted to one policy in a
    // pristine process and returns its outcome tables; provided by the
    // command-line front-end (a fork server started before any plan ran)
    std::function<bool(
        const Plan&,
        std::map<std::string, std::map<std::string, std::string>>&)>
        solo;
    std::set<std::string> tolerate; // keys of known findings
    std::string focus; // property under check: stop at its first violation;
                       // violations of other properties are recorded and
                       // the run goes on (unless continuing could crash)
};

void exec_init(); // objects, hooks, policies
RunResult execute(const Plan& plan, const ExecOpts& opts);

// stepwise execution of a plan (used by the thread scheduler)
struct Session {
    Session(const Plan& plan, const ExecOpts& opts);
    ~Session();
    Session(const Session&) = delete;
    bool step(std::size_t event_index);
    bool stopped() const;
    RunResult finish(); // resets the policies
    PolicyOps* ops(int pol);
    const Registry& updated(int pol);

  private:
    struct Impl;
    Impl* impl;
};

// the plan restricted to the records and events of one policy
Plan restrict_to_policy(const Plan& p, int pi);

// differential wrappers: run the plan and the counterparts derived from it
RunResult run_plan(const Plan& plan, const ExecOpts& opts);

} // namespace ys
