// Component-level engines:
//  list-sim (C18): detail::static_list driven directly against a vector model
//  hash-sim (C05): Policy::publish_vptrs / hash_initialize driven directly
//                  with model classes (they are generic over iterators)
#include "mini.hpp"
#include "ops.hpp"

#include <yorel/yomm2/core.hpp>

#include <algorithm>
#include <cstring>

namespace ys {

namespace y2 = yorel::yomm2;

// ---------------------------------------------------------------------------
// list-sim

namespace {

struct Node : y2::detail::static_list<Node>::static_link {
    int id;
    bool unlinked() const {
        return prev_ptr == nullptr && next_ptr == nullptr;
    }
};

constexpr int LIST_EXHAUSTIVE_OPS = 5; // all sequences of <= 5 ops, 3 nodes
constexpr long LIST_EXHAUSTIVE = 7 + 49 + 343 + 2401 + 16807;

J list_gen(std::uint64_t seed, int tier, long index) {
    J c = J::obj();
    J ops = J::arr();
    if (index < LIST_EXHAUSTIVE) {
        // exhaustive part: index -> sequence over {push 0..2, remove 0..2,
        // clear}; illegal operations are skipped by the interpreter
        long k = index;
        int len = 1;
        long block = 7;
        while (k >= block) {
            k -= block;
            block *= 7;
            ++len;
        }
        c.set("nodes", 3);
        for (int i = 0; i < len; ++i) {
            int d = (int)(k % 7);
            k /= 7;
            J op = J::arr();
            if (d < 3) {
                op.push(0);
                op.push(d);
            } else if (d < 6) {
                op.push(1);
                op.push(d - 3);
            } else {
                op.push(2);
                op.push(0);
            }
            ops.push(op);
        }
        c.set("ops", ops);
        c.set("exhaustive", true);
        return c;
    }
    Rng r(seed);
    int n = r.range(1, 6);
    int len = r.range(1, tier ? 120 : 60);
    c.set("nodes", n);
    // bias: keep the list populated, remove first / middle / last / only
    std::vector<int> linked;
    std::vector<char> in(n, 0);
    for (int i = 0; i < len; ++i) {
        J op = J::arr();
        int what = (int)r.below(100);
        if (what < 4) {
            op.push(2);
            op.push(0);
            linked.clear();
            std::fill(in.begin(), in.end(), 0);
        } else if ((what < 55 || linked.empty()) && (int)linked.size() < n) {
            std::vector<int> free;
            for (int k = 0; k < n; ++k)
                if (!in[k])
                    free.push_back(k);
            int k = free[r.below(free.size())];
            op.push(0);
            op.push(k);
            linked.push_back(k);
            in[k] = 1;
        } else if (!linked.empty()) {
            std::size_t pos;
            int where = (int)r.below(4);
            if (where == 0)
                pos = 0;
            else if (where == 1)
                pos = linked.size() - 1;
            else
                pos = r.below(linked.size());
            op.push(1);
            op.push(linked[pos]);
            in[linked[pos]] = 0;
            linked.erase(linked.begin() + pos);
        } else
            continue;
        ops.push(op);
    }
    c.set("ops", ops);
    return c;
}

MiniOutcome list_run(const J& c) {
    MiniOutcome o;
    int n = (int)c.geti("nodes", 1);
    if (n < 1 || n > 8)
        n = 1;
    // zero-initialised storage, as objects with static storage duration
    alignas(16) static unsigned char node_store[8][sizeof(Node)];
    alignas(16) static unsigned char list_store[sizeof(y2::detail::static_list<Node>)];
    std::memset(node_store, 0, sizeof node_store);
    std::memset(list_store, 0, sizeof list_store);
    auto& list = *new (list_store) y2::detail::static_list<Node>;
    Node* nodes[8];
    for (int i = 0; i < n; ++i) {
        nodes[i] = new (node_store[i]) Node;
        nodes[i]->id = i;
    }
    std::vector<int> model;
    Hash h;
    Hash sig;
    std::set<int> kinds;
    auto fail = [&](const std::string& cls, const std::string& d) {
        if (o.key.empty()) {
            o.key = "C18/list/" + cls;
            o.detail = d;
        }
    };
    auto in_model = [&](int k) {
        return std::find(model.begin(), model.end(), k) != model.end();
    };
    std::uint64_t events = 0;
    int step = 0;
    for (auto& op : c.at("ops").a) {
        ++step;
        int what = (int)op.a[0].i();
        int k = op.a.size() > 1 ? (int)op.a[1].i() : 0;
        if (k < 0 || k >= n)
            continue;
        if (what == 0) {
            if (in_model(k))
                continue; // illegal: already linked
            list.push_back(*nodes[k]);
            model.push_back(k);
            kinds.insert(model.size() == 1 ? 10 : 11);
        } else if (what == 1) {
            if (!in_model(k))
                continue; // illegal: not linked
            std::size_t pos =
                std::find(model.begin(), model.end(), k) - model.begin();
            kinds.insert(
                model.size() == 1 ? 20
                    : pos == 0    ? 21
                    : pos + 1 == model.size() ? 22
                                              : 23);
            list.remove(*nodes[k]);
            model.erase(model.begin() + pos);
        } else {
            list.clear();
            kinds.insert(model.empty() ? 30 : 31);
            model.clear();
        }
        ++events;
        h.u64((std::uint64_t)what * 16 + (std::uint64_t)k);
        // compare with the vector model: both iterator kinds, size, empty,
        // unlinked state of the nodes that are out
        std::vector<int> seen;
        int guard = 0;
        for (auto it = list.begin(); it != list.end(); ++it) {
            seen.push_back(it->id);
            if (++guard > 64)
                break;
        }
        std::string at = " after operation " + std::to_string(step);
        if (seen != model)
            return fail("iteration", "iteration differs from the model" + at), o;
        const auto& clist = list;
        std::vector<int> cseen;
        guard = 0;
        for (auto it = clist.begin(); it != clist.end(); ++it) {
            cseen.push_back(it->id);
            if (++guard > 64)
                break;
        }
        if (cseen != model)
            return fail("const-iteration", "const iteration differs" + at), o;
        if (clist.size() != model.size())
            return fail("size", "size() differs from the model" + at), o;
        if (clist.empty() != model.empty())
            return fail("empty", "empty() differs from the model" + at), o;
        for (int i = 0; i < n; ++i)
            if (!in_model(i) && !nodes[i]->unlinked())
                return fail(
                           "not-unlinked",
                           "a removed node still has links" + at),
                       o;
        // next() of each linked node is its successor
        for (std::size_t i = 0; i < model.size(); ++i) {
            Node* nx = nodes[model[i]]->next();
            Node* want = i + 1 < model.size() ? nodes[model[i + 1]] : nullptr;
            if (nx != want)
                return fail("next", "next() of a node is wrong" + at), o;
        }
        h.u64(model.size());
    }
    o.hash = h.h;
    for (int k : kinds)
        sig.u64((std::uint64_t)k);
    sig.u64((std::uint64_t)n);
    sig.u64(events);
    sig.u64(h.h);
    o.signature = sig.h;
    o.nontrivial = kinds.count(23) || kinds.count(21) || kinds.count(31);
    o.counters["events"] = events;
    o.counters["ops_remove_only"] = kinds.count(20);
    o.counters["ops_remove_first"] = kinds.count(21);
    o.counters["ops_remove_last"] = kinds.count(22);
    o.counters["ops_remove_middle"] = kinds.count(23);
    o.counters["ops_clear_nonempty"] = kinds.count(31);
    if (c.getb("exhaustive", false))
        o.counters["exhaustive_cases"] = 1;
    return o;
}

std::vector<J> list_shrinks(const J& c) {
    std::vector<J> out;
    auto& ops = c.at("ops").a;
    for (std::size_t chunk = ops.size() / 2; chunk >= 1; chunk /= 2) {
        for (std::size_t i = 0; i + chunk <= ops.size(); i += chunk) {
            J d = c;
            J no = J::arr();
            for (std::size_t k = 0; k < ops.size(); ++k)
                if (k < i || k >= i + chunk)
                    no.push(ops[k]);
            d.set("ops", no);
            out.push_back(d);
        }
        if (chunk == 1)
            break;
    }
    return out;
}

// ---------------------------------------------------------------------------
// hash-sim

struct HThrow {
    int alt = 0;
    y2::type_id type = 0;
    std::size_t attempts = 0, buckets = 0;
};

int g_handler_calls = 0;

void hash_handler(const y2::error_type& ev) {
    ++g_handler_calls;
    HThrow t;
    if (auto e = std::get_if<y2::hash_search_error>(&ev)) {
        t.alt = EA_HASH_SEARCH;
        t.attempts = e->attempts;
        t.buckets = e->buckets;
    } else if (auto e = std::get_if<y2::unknown_class_error>(&ev)) {
        t.alt = EA_UNKNOWN_CLASS;
        t.type = e->type;
    } else
        t.alt = EA_GENERIC;
    throw t;
}

struct id_rtti : virtual y2::policy::rtti {
    template<class T>
    static y2::type_id static_type() {
        return 0;
    }
    template<class T>
    static y2::type_id dynamic_type(const T&) {
        return 0;
    }
};

using namespace y2::policy;
struct hs_fast : basic_policy<hs_fast, id_rtti, fast_perfect_hash<hs_fast>, vptr_vector<hs_fast>, vectored_error<hs_fast>> {};
struct hs_fast2 : basic_policy<hs_fast2, id_rtti, fast_perfect_hash<hs_fast2>, vptr_vector<hs_fast2>, vectored_error<hs_fast2>> {};
struct hs_chk : basic_policy<hs_chk, id_rtti, checked_perfect_hash<hs_chk>, vptr_vector<hs_chk>, vectored_error<hs_chk>> {};
struct hs_chk2 : basic_policy<hs_chk2, id_rtti, checked_perfect_hash<hs_chk2>, vptr_vector<hs_chk2>, vectored_error<hs_chk2>> {};
struct hs_ind : basic_policy<hs_ind, id_rtti, checked_perfect_hash<hs_ind>, vptr_vector<hs_ind>, basic_indirect_vptr<hs_ind>, vectored_error<hs_ind>> {};
struct hs_ind2 : basic_policy<hs_ind2, id_rtti, checked_perfect_hash<hs_ind2>, vptr_vector<hs_ind2>, basic_indirect_vptr<hs_ind2>, vectored_error<hs_ind2>> {};

// model class handed to publish_vptrs
// (it has what the two kinds of object the library passes to publish_vptrs -
// the compiler's class_ and the catalog's class_info - have in common)
struct HClass {
    std::vector<y2::type_id> ids;
    std::uintptr_t* vp;   // this class's "v-table pointer"
    std::uintptr_t** svp; // address of its "static v-table pointer"
    std::uintptr_t** static_vptr = nullptr;
    bool is_abstract = false; // registered abstract classes are hashed too
    auto type_id_begin() const {
        return ids.begin();
    }
    auto type_id_end() const {
        return ids.end();
    }
    const std::uintptr_t* vptr() const {
        return vp;
    }
    const std::uintptr_t* const* indirect_vptr() const {
        return svp;
    }
};

template<class P>
void hs_reset() {
    P::hash_mult = 0;
    P::hash_shift = 0;
    P::hash_length = 0;
    P::hash_min = 0;
    P::hash_max = 0;
    std::vector<const std::uintptr_t*>().swap(P::vptrs);
    if constexpr (P::template has_facet<runtime_checks>) {
        std::vector<y2::type_id>().swap(P::control);
    }
    if constexpr (P::template has_facet<indirect_vptr>) {
        std::vector<std::uintptr_t const* const*>().swap(P::indirect_vptrs);
    }
    P::error = &hash_handler;
}

struct StepOut {
    bool ok = false;
    bool failed = false; // hash_search_error reported
    int handler_calls = 0;
    std::size_t attempts_reported = 0;
    std::uint64_t attempts_made = 0;
    y2::type_id mult = 0;
    std::size_t shift = 0;
    int other_error = 0;
};

template<class P>
StepOut hs_step(std::vector<HClass>& classes, std::uint64_t seed, std::uint64_t budget) {
    StepOut so;
    g.hash_seed = seed;
    g.hash_budget = budget;
    g_handler_calls = 0;
    std::uint64_t before = g.probes[PROBE_HASH_ATTEMPT];
    try {
        P::publish_vptrs(classes.begin(), classes.end());
        so.ok = true;
    } catch (HThrow& t) {
        if (t.alt == EA_HASH_SEARCH) {
            so.failed = true;
            so.attempts_reported = t.attempts;
        } else
            so.other_error = t.alt;
    }
    so.attempts_made = g.probes[PROBE_HASH_ATTEMPT] - before;
    so.handler_calls = g_handler_calls;
    so.mult = P::hash_mult;
    so.shift = P::hash_shift;
    g.hash_seed = 0;
    g.hash_budget = 0;
    return so;
}

// after a successful step: perfect on the registered ids, checked variant
// rejects the rest
template<class P>
std::string hs_verify(
    const std::vector<HClass>& classes, const std::vector<y2::type_id>& removed,
    Rng& r, std::uint64_t& rejects) {
    std::map<y2::type_id, y2::type_id> index_owner;
    std::set<y2::type_id> registered;
    for (auto& c : classes)
        for (auto id : c.ids) {
            registered.insert(id);
            y2::type_id idx;
            try {
                idx = P::hash_type_id(id); // the real lookup function
            } catch (HThrow&) {
                return "registered-id-rejected";
            }
            if (idx >= P::vptrs.size())
                return "index-out-of-range";
            auto ins = index_owner.emplace(idx, id);
            if (!ins.second && ins.first->second != id)
                return "collision";
            if (P::vptrs[idx] != c.vp)
                return "wrong-vptr";
            if constexpr (P::template has_facet<indirect_vptr>) {
                if (idx >= P::indirect_vptrs.size() ||
                    P::indirect_vptrs[idx] != c.svp)
                    return "wrong-indirect-vptr";
            }
        }
    if constexpr (P::template has_facet<runtime_checks>) {
        std::vector<y2::type_id> probes;
        std::vector<y2::type_id> reg(registered.begin(), registered.end());
        for (int i = 0; i < 120 && !reg.empty(); ++i) {
            y2::type_id id = reg[r.below(reg.size())];
            switch (r.below(7)) {
            case 0:
                probes.push_back(id + 1);
                break;
            case 1:
                probes.push_back(id - 1);
                break;
            case 2:
                probes.push_back(id ^ (y2::type_id(1) << r.below(64)));
                break;
            case 3:
                probes.push_back(id + 16);
                break;
            case 4:
                probes.push_back(id << 1);
                break;
            case 5:
                probes.push_back(id + (y2::type_id(1) << 48));
                break;
            default:
                probes.push_back(id >> 1);
            }
        }
        for (auto id : removed)
            probes.push_back(id);
        probes.push_back(0);
        probes.push_back(1);
        for (int i = 0; i < 60; ++i)
            probes.push_back(r.next());
        for (auto id : probes) {
            if (registered.count(id) || id == ~y2::type_id(0))
                continue;
            ++rejects;
            g_handler_calls = 0;
            bool rejected = false;
            try {
                (void)P::hash_type_id(id);
            } catch (HThrow& t) {
                rejected = t.alt == EA_UNKNOWN_CLASS && t.type == id &&
                    g_handler_calls == 1;
            }
            if (!rejected)
                return "unregistered-id-accepted";
        }
    }
    return "";
}

std::vector<y2::type_id> hs_ids(Rng& r, int fam, int count, std::set<y2::type_id>& used) {
    std::vector<y2::type_id> out;
    y2::type_id base = 0x00005566778899a0ULL + 4096 * r.below(1000);
    y2::type_id stride = 8 * (1 + r.below(128));
    int guard = 0;
    while ((int)out.size() < count && ++guard < count * 50 + 100) {
        y2::type_id id = 0;
        switch (fam) {
        case 0:
            id = 1 + r.below(4 * (std::uint64_t)count + 64);
            break;
        case 1:
            id = r.next();
            break;
        case 2:
            id = base + 16 * r.below(8 * (std::uint64_t)count + 64);
            break;
        case 3:
            id = (r.below(1 << 16) << 48) | 0x1230;
            break;
        case 4:
            id = base + stride * r.below(4 * (std::uint64_t)count + 64);
            break;
        default:
            id = (r.below(1 << 20) << 3); // ids differing only in low bits
        }
        if (r.chance(0.01))
            id = 0; // a legal custom id
        if (id == ~y2::type_id(0) || !used.insert(id).second)
            continue;
        out.push_back(id);
    }
    return out;
}

J hash_gen(std::uint64_t seed, int tier, long) {
    Rng r(seed);
    J c = J::obj();
    static const char* pols[] = {"fast", "chk", "chk", "ind"};
    c.set("policy", pols[r.below(4)]);
    int fam = (int)r.below(6);
    c.set("family", fam);
    int nsteps = r.range(1, tier ? 10 : 6);
    // sizes: mostly small, sometimes hundreds
    int maxn;
    int sz = (int)r.below(10);
    if (sz < 5)
        maxn = 12;
    else if (sz < 8)
        maxn = 60;
    else
        maxn = tier ? 600 : 300;
    std::set<y2::type_id> used;
    std::vector<std::vector<y2::type_id>> cur; // classes, each with 1-3 ids
    J steps = J::arr();
    for (int s = 0; s < nsteps; ++s) {
        int what = (int)r.below(10);
        if (s == 0 || what < 5) { // grow
            int add = r.range(s == 0 ? 0 : 1, std::max(1, maxn / 2));
            for (int i = 0; i < add && (int)cur.size() < maxn; ++i)
                cur.push_back(hs_ids(r, fam, r.chance(0.15) ? r.range(2, 3) : 1, used));
        } else if (what < 8) { // shrink
            int drop = (int)r.below(cur.size() + 1);
            for (int i = 0; i < drop && !cur.empty(); ++i)
                cur.erase(cur.begin() + r.below(cur.size()));
        } else { // replace by a disjoint set
            int n = (int)cur.size();
            cur.clear();
            for (int i = 0; i < n; ++i)
                cur.push_back(hs_ids(r, fam, 1, used));
        }
        J st = J::obj();
        J cls = J::arr();
        for (auto& ids : cur) {
            J a = J::arr();
            for (auto id : ids)
                a.push(J((unsigned long long)id));
            cls.push(a);
        }
        st.set("classes", cls);
        st.set("seed", J((unsigned long long)(r.chance(0.3) ? 0 : 1 + r.below(1u << 30))));
        static const int budgets[] = {0, 0, 0, 0, 1, 1, 2, 3, 10, 100};
        int budget = budgets[r.below(10)];
        std::size_t nids = 0;
        for (auto& ids : cur)
            nids += ids.size();
        if (budget == 0 && nids > 150) {
            // the shipped budget on hundreds of ids can cost minutes of CPU
            // per step: keep the search bounded there
            static const int big[] = {1, 3, 10, 100, 1000, 5000};
            budget = big[r.below(6)];
        }
        st.set("budget", budget);
        steps.push(st);
    }
    c.set("steps", steps);
    return c;
}

template<class P, class Twin>
MiniOutcome hash_run_t(const J& c) {
    MiniOutcome o;
    hs_reset<P>();
    Hash h, sig;
    Rng r(0xC05C05);
    std::vector<y2::type_id> prev_ids;
    std::uint64_t events = 0, rejects = 0;
    bool any_fail = false, any_big = false, any_pass2 = false;
    // storage for "v-tables" and "static v-table pointers"
    static std::uintptr_t vt[700];
    static std::uintptr_t* svp[700];
    auto fail = [&](const std::string& cls, const std::string& d) {
        if (o.key.empty()) {
            o.key = "C05/hash/" + cls;
            o.detail = d;
        }
    };
    int stepno = 0;
    for (auto& st : c.at("steps").a) {
        ++stepno;
        std::vector<HClass> classes;
        std::vector<y2::type_id> all;
        int k = 0;
        for (auto& cl : st.at("classes").a) {
            if (k >= 700)
                break;
            HClass hc;
            hc.ids = cl.u64s();
            svp[k] = &vt[k];
            hc.vp = &vt[k];
            hc.svp = &svp[k];
            hc.static_vptr = &svp[k];
            // one class in six is abstract (a pure function of its ids, so
            // that a case replays without a format change)
            hc.is_abstract = !hc.ids.empty() &&
                mix3(hc.ids[0], 0xAB57, hc.ids.size()) % 6 == 0;
            for (auto id : hc.ids)
                all.push_back(id);
            classes.push_back(hc);
            ++k;
        }
        std::uint64_t seed = st.getu("seed", 0), budget = st.getu("budget", 0);
        std::uint64_t passes_before = g.probes[PROBE_HASH_ATTEMPT];
        (void)passes_before;
        StepOut so = hs_step<P>(classes, seed, budget);
        ++events;
        std::string at = " at step " + std::to_string(stepno) + " (" +
            std::to_string(all.size()) + " ids)";
        h.u64(so.ok);
        h.u64(so.failed);
        h.u64(so.attempts_made);
        if (all.size() > 100)
            any_big = true;
        if (so.other_error)
            return fail("unexpected-error", "publish_vptrs raised another error" + at), o;
        if (so.failed) {
            any_fail = true;
            o.counters[budget ? "fault:hash_budget_exhausted" : "fault:hash_search_failed_shipped_budget"] += 1;
            if (so.handler_calls != 1)
                return fail("handler-count", "hash search failure reported " + std::to_string(so.handler_calls) + " times" + at), o;
            if (so.attempts_reported != so.attempts_made)
                return fail("attempts", "hash_search_error reports " + std::to_string(so.attempts_reported) + " attempts, " + std::to_string(so.attempts_made) + " were made" + at), o;
        } else if (so.ok) {
            if (so.handler_calls != 0)
                return fail("handler-count", "handler called although the search succeeded" + at), o;
            std::vector<y2::type_id> removed;
            std::set<y2::type_id> now(all.begin(), all.end());
            for (auto id : prev_ids)
                if (!now.count(id))
                    removed.push_back(id);
            std::string why = hs_verify<P>(classes, removed, r, rejects);
            if (!why.empty())
                return fail(why, "after a successful hash search: " + why + at), o;
        } else
            return fail("no-outcome", "publish_vptrs neither succeeded nor reported" + at), o;
        // a pristine twin, same ids, seed and budget: same outcome
        hs_reset<Twin>();
        StepOut tw = hs_step<Twin>(classes, seed, budget);
        if (tw.ok != so.ok || tw.failed != so.failed ||
            (so.ok && (tw.mult != so.mult || tw.shift != so.shift)) ||
            tw.attempts_made != so.attempts_made)
            return fail("history-dependent", "outcome differs from a pristine policy given the same ids, seed and budget" + at), o;
        if (so.attempts_made > 1)
            any_pass2 = true;
        prev_ids = all;
    }
    o.hash = h.h;
    sig.u64(h.h);
    sig.str(c.gets("policy", ""));
    sig.u64((std::uint64_t)c.geti("family", 0));
    for (auto& st : c.at("steps").a)
        sig.u64(st.at("classes").a.size());
    o.signature = sig.h;
    o.nontrivial = any_fail || any_big || any_pass2 || c.at("steps").a.size() > 1;
    o.counters["events"] = events;
    o.counters["rejects_checked"] = rejects;
    o.counters["steps_over_100_ids"] = any_big;
    return o;
}

MiniOutcome hash_run(const J& c) {
    y2::verif::hooks.yield = nullptr;
    std::string p = c.gets("policy", "fast");
    if (p == "fast")
        return hash_run_t<hs_fast, hs_fast2>(c);
    if (p == "ind")
        return hash_run_t<hs_ind, hs_ind2>(c);
    return hash_run_t<hs_chk, hs_chk2>(c);
}

std::vector<J> hash_shrinks(const J& c) {
    std::vector<J> out;
    auto& steps = c.at("steps").a;
    for (std::size_t i = 0; i < steps.size(); ++i) {
        J d = c;
        J ns = J::arr();
        for (std::size_t k = 0; k < steps.size(); ++k)
            if (k != i)
                ns.push(steps[k]);
        d.set("steps", ns);
        if (!ns.a.empty())
            out.push_back(d);
    }
    // halve class lists of one step
    for (std::size_t i = 0; i < steps.size(); ++i) {
        auto& cls = steps[i].at("classes").a;
        if (cls.size() < 2)
            continue;
        for (int half = 0; half < 2; ++half) {
            J d = c;
            J nc = J::arr();
            for (std::size_t k = 0; k < cls.size(); ++k)
                if ((k < cls.size() / 2) == (half == 0))
                    nc.push(cls[k]);
            J ns = J::arr();
            for (std::size_t k = 0; k < steps.size(); ++k) {
                if (k == i) {
                    J st = steps[k];
                    st.set("classes", nc);
                    ns.push(st);
                } else
                    ns.push(steps[k]);
            }
            d.set("steps", ns);
            out.push_back(d);
        }
        if (cls.size() <= 12)
            for (std::size_t drop = 0; drop < cls.size(); ++drop) {
                J d = c;
                J nc = J::arr();
                for (std::size_t k = 0; k < cls.size(); ++k)
                    if (k != drop)
                        nc.push(cls[k]);
                J ns = J::arr();
                for (std::size_t k = 0; k < steps.size(); ++k) {
                    if (k == i) {
                        J st = steps[k];
                        st.set("classes", nc);
                        ns.push(st);
                    } else
                        ns.push(steps[k]);
                }
                d.set("steps", ns);
                out.push_back(d);
            }
    }
    return out;
}

} // namespace

MiniEngine list_engine() {
    MiniEngine e;
    e.name = "list";
    e.prop = "C18";
    e.gen = list_gen;
    e.run = list_run;
    e.shrinks = list_shrinks;
    return e;
}

MiniEngine hash_engine() {
    MiniEngine e;
    e.name = "hash";
    e.prop = "C05";
    e.cpu_limit = 400; // hundreds of ids x thousands of attempts x twin
    e.summary = [](const J& c) {
        J s = J::obj();
        s.set("policy", c.gets("policy", ""));
        s.set("id_family", c.geti("family", 0));
        J steps = J::arr();
        for (auto& st : c.at("steps").a) {
            J o = J::obj();
            std::size_t ids = 0;
            for (auto& cl : st.at("classes").a)
                ids += cl.a.size();
            o.set("classes", J((unsigned long long)st.at("classes").a.size()));
            o.set("ids", J((unsigned long long)ids));
            o.set("seed", J((unsigned long long)st.getu("seed", 0)));
            o.set("budget", J((unsigned long long)st.getu("budget", 0)));
            steps.push(o);
        }
        s.set("steps", steps);
        return s;
    };
    e.gen = hash_gen;
    e.run = hash_run;
    e.shrinks = hash_shrinks;
    return e;
}

} // namespace ys
