#include <cstdint>
#include <string>
namespace ys {
int listsim_main(const std::string&, std::uint64_t, long, long, double) { return 2; }
int hashsim_main(const std::string&, std::uint64_t, long, long, double) { return 2; }
}
