// The generator (generator.hpp defines non-inline functions, so it can be
// included in one translation unit only: genglue.cpp) behind plain functions.
#pragma once

#include <yorel/yomm2/core.hpp>
#include <yorel/yomm2/detail/compiler.hpp>

#include <string>

namespace ys {

// generator::write_static_offsets<Policy> / <method of slot>. The generator
// object lives as long as the simulated process (glue_new_generator at its
// start), unless fresh is set: then a new object is made for this call.
template<class P>
std::string glue_offsets(int slot, bool fresh);
template<class P>
void glue_new_generator();

// generator::write_static_offsets<Policy> only (typed world)
template<class P>
std::string glue_offsets_policy(bool fresh);

// generator::encode_dispatch_data(compiler, policy_name, os)
template<class P>
std::string glue_encode(
    const yorel::yomm2::detail::compiler<P>& compiler, const char* name);

} // namespace ys
