// The stub that stands for the C++ compiler in C12 / C13: parsers for the two
// kinds of source text the generator writes. They accept exactly the shape the
// generator documents (and a compiler would accept) and reject anything else
// with a reason, so that malformed text is a finding, not a crash.
#pragma once

#include <cctype>
#include <cerrno>
#include <cstdint>
#include <cstdlib>
#include <string>
#include <vector>

namespace ys {

// ---------------------------------------------------------------------------
// encode_dispatch_data

struct EmittedData {
    std::size_t headroom = 0, nslots = 0, nvtbls = 0, ndecoded = 0, ndtbls = 0,
                nnexts = 0;
    std::vector<std::uint16_t> slots, vtbls, nexts; // initialisers present
    std::vector<std::uintptr_t> dtbls;
    std::string policy; // template argument of the decode call
};

namespace emitted_detail {

struct Node {
    bool leaf = false;
    unsigned long long v = 0;
    std::vector<Node> kids;
};

inline std::string strip_comments(const std::string& text) {
    std::string o;
    for (std::size_t i = 0; i < text.size(); ++i) {
        if (text[i] == '/' && i + 1 < text.size() && text[i + 1] == '/') {
            while (i < text.size() && text[i] != '\n')
                ++i;
            o += '\n';
        } else
            o += text[i];
    }
    return o;
}

inline void skip_ws(const std::string& s, std::size_t& i) {
    while (i < s.size() && std::isspace((unsigned char)s[i]))
        ++i;
}

// braced initialiser list: '{' [ item { ',' item } [','] ] '}'
inline bool parse_braces(
    const std::string& s, std::size_t& i, Node& out, std::string& why,
    int depth = 0) {
    skip_ws(s, i);
    if (i >= s.size() || s[i] != '{') {
        why = "expected '{'";
        return false;
    }
    ++i;
    if (depth > 8) {
        why = "nesting too deep";
        return false;
    }
    bool need_item = false; // after a comma an item or '}' may follow
    bool first = true;
    for (;;) {
        skip_ws(s, i);
        if (i >= s.size()) {
            why = "unbalanced braces";
            return false;
        }
        if (s[i] == '}') {
            ++i;
            return true;
        }
        if (!first && !need_item) {
            why = "missing comma between initialisers";
            return false;
        }
        Node k;
        if (s[i] == '{') {
            if (!parse_braces(s, i, k, why, depth + 1))
                return false;
        } else if (std::isdigit((unsigned char)s[i])) {
            char* end = nullptr;
            errno = 0;
            k.leaf = true;
            k.v = std::strtoull(s.c_str() + i, &end, 0);
            if (errno || end == s.c_str() + i) {
                why = "bad number";
                return false;
            }
            i = (std::size_t)(end - s.c_str());
        } else {
            why = std::string("unexpected character '") + s[i] +
                "' in initialiser";
            return false;
        }
        out.kids.push_back(std::move(k));
        first = false;
        need_item = false;
        skip_ws(s, i);
        if (i < s.size() && s[i] == ',') {
            ++i;
            need_item = true;
        }
    }
}

inline bool dim_after(
    const std::string& s, const std::string& what, std::size_t& from,
    std::size_t& value, std::string& why) {
    std::size_t p = s.find(what, from);
    if (p == std::string::npos) {
        why = "declaration of " + what + "...] not found";
        return false;
    }
    p += what.size();
    // "%d" of a size that went negative prints a minus sign
    std::size_t q = p;
    if (q < s.size() && s[q] == '-') {
        why = "negative array bound for " + what + "]";
        return false;
    }
    while (q < s.size() && std::isdigit((unsigned char)s[q]))
        ++q;
    if (q == p || q >= s.size() || s[q] != ']') {
        why = "bad array bound for " + what + "]";
        return false;
    }
    value = std::strtoull(s.substr(p, q - p).c_str(), nullptr, 10);
    from = q;
    return true;
}

template<class T>
bool leaves(
    const Node& n, std::size_t bound, unsigned long long maxv,
    std::vector<T>& out, const char* what, std::string& why) {
    if (n.leaf) {
        why = std::string(what) + ": expected a braced list";
        return false;
    }
    if (n.kids.size() > bound) {
        why = std::string(what) + ": " + std::to_string(n.kids.size()) +
            " initialisers for an array of " + std::to_string(bound);
        return false;
    }
    for (auto& k : n.kids) {
        if (!k.leaf) {
            why = std::string(what) + ": nested braces";
            return false;
        }
        if (k.v > maxv) {
            why = std::string(what) + ": constant does not fit the element";
            return false;
        }
        out.push_back((T)k.v);
    }
    return true;
}

} // namespace emitted_detail

// returns "" or why the text is not the documented structure
inline std::string parse_emitted(const std::string& text, EmittedData& em) {
    using namespace emitted_detail;
    std::string s = strip_comments(text);
    std::string why;
    std::size_t at = s.find("static struct");
    if (at == std::string::npos)
        return "no 'static struct' declaration";
    if (!dim_after(s, "uint16_t headroom[", at, em.headroom, why) ||
        !dim_after(s, "uint16_t slots[", at, em.nslots, why) ||
        !dim_after(s, "uint16_t vtbls[", at, em.nvtbls, why) ||
        !dim_after(s, "std::uintptr_t vtbls[", at, em.ndecoded, why) ||
        !dim_after(s, "std::uintptr_t dtbls[", at, em.ndtbls, why) ||
        !dim_after(s, "uint16_t nexts[", at, em.nnexts, why))
        return why;
    const std::size_t sane = 1u << 22;
    if (em.headroom > sane || em.nslots > sane || em.nvtbls > sane ||
        em.ndecoded > sane || em.ndtbls > sane || em.nnexts > sane)
        return "absurd array bound";
    std::size_t name = s.find("yomm2_dispatch_data", at);
    if (name == std::string::npos)
        return "object name not found";
    std::size_t i = name + std::string("yomm2_dispatch_data").size();
    skip_ws(s, i);
    if (i >= s.size() || s[i] != '=')
        return "expected '=' after the object name";
    ++i;
    Node top;
    if (!parse_braces(s, i, top, why))
        return why;
    skip_ws(s, i);
    if (i >= s.size() || s[i] != ';')
        return "expected ';' after the initialiser";
    // { {union: { encoded: { {headroom}, {slots}, {vtbls} } } }, {dtbls},
    //   {nexts} }
    if (top.kids.empty() || top.kids.size() > 3)
        return "top level: expected the union, dtbls and nexts";
    const Node& un = top.kids[0];
    if (un.leaf || un.kids.size() != 1)
        return "union: expected one braced member (encoded)";
    const Node& enc = un.kids[0];
    if (enc.leaf || enc.kids.size() > 3)
        return "encoded: expected headroom, slots, vtbls";
    if (enc.kids.size() >= 1) {
        std::vector<std::uint16_t> hr;
        if (!leaves(enc.kids[0], em.headroom, 0xffff, hr, "headroom", why))
            return why;
        for (auto v : hr)
            if (v)
                return "headroom: non-zero initialiser";
    }
    if (enc.kids.size() >= 2 &&
        !leaves(enc.kids[1], em.nslots, 0xffff, em.slots, "slots", why))
        return why;
    if (enc.kids.size() >= 3 &&
        !leaves(enc.kids[2], em.nvtbls, 0xffff, em.vtbls, "vtbls", why))
        return why;
    if (top.kids.size() >= 2 &&
        !leaves(top.kids[1], em.ndtbls, ~0ull, em.dtbls, "dtbls", why))
        return why;
    if (top.kids.size() >= 3 &&
        !leaves(top.kids[2], em.nnexts, 0xffff, em.nexts, "nexts", why))
        return why;
    std::size_t call = s.find("yorel::yomm2::decode_dispatch_data<", i);
    if (call == std::string::npos)
        return "call of decode_dispatch_data not found";
    call += std::string("yorel::yomm2::decode_dispatch_data<").size();
    std::size_t close = s.find(">(yomm2_dispatch_data);", call);
    if (close == std::string::npos)
        return "malformed call of decode_dispatch_data";
    em.policy = s.substr(call, close - call);
    return "";
}

// The emitted object, laid out as the emitted struct declaration says, in one
// heap block of exactly its size (AddressSanitizer guards both ends), and the
// view of it decode_dispatch_data<Policy>(Data&) works on: it only uses
// init.encoded.slots, init.encoded.vtbls, init.vtbls, init.dtbls, init.nexts
// as pointers.
struct DecodeView {
    struct {
        std::uint16_t* slots;
        std::uint16_t* vtbls;
    } encoded;
    std::uintptr_t* vtbls;
    std::uintptr_t* dtbls;
    std::uint16_t* nexts;
};

inline unsigned char*
layout_emitted(const EmittedData& em, DecodeView& d, std::size_t& size) {
    const std::size_t enc_bytes = 2 * (em.headroom + em.nslots + em.nvtbls);
    std::size_t usize = enc_bytes > 8 * em.ndecoded ? enc_bytes : 8 * em.ndecoded;
    usize = (usize + 7) / 8 * 8;
    // struct { union; uintptr_t dtbls[]; uint16_t nexts[]; }: alignment 8
    const std::size_t nexts_at = usize + 8 * em.ndtbls;
    size = (nexts_at + 2 * em.nnexts + 7) / 8 * 8;
    auto block = (unsigned char*)std::calloc(1, size ? size : 1);
    auto enc = reinterpret_cast<std::uint16_t*>(block);
    d.encoded.slots = enc + em.headroom;
    d.encoded.vtbls = enc + em.headroom + em.nslots;
    d.vtbls = reinterpret_cast<std::uintptr_t*>(block);
    d.dtbls = reinterpret_cast<std::uintptr_t*>(block + usize);
    d.nexts = reinterpret_cast<std::uint16_t*>(block + nexts_at);
    for (std::size_t i = 0; i < em.nexts.size(); ++i)
        d.nexts[i] = em.nexts[i];
    for (std::size_t i = 0; i < em.slots.size(); ++i)
        d.encoded.slots[i] = em.slots[i];
    for (std::size_t i = 0; i < em.vtbls.size(); ++i)
        d.encoded.vtbls[i] = em.vtbls[i];
    for (std::size_t i = 0; i < em.dtbls.size(); ++i)
        d.dtbls[i] = em.dtbls[i];
    return block;
}

// ---------------------------------------------------------------------------
// write_static_offsets: one line per method,
//   template<> struct yorel::yomm2::detail::static_offsets<NAME> {static
//   constexpr std::size_t slots[] = {a, b}; static constexpr std::size_t
//   strides[] = {c}; };

struct EmittedOffsets {
    std::string method; // NAME
    std::vector<std::size_t> slots, strides;
};

inline std::string
parse_offsets(const std::string& text, std::vector<EmittedOffsets>& out) {
    const std::string head =
        "template<> struct yorel::yomm2::detail::static_offsets<";
    std::size_t i = 0;
    auto list = [&](const std::string& s, std::size_t& p,
                    std::vector<std::size_t>& v) -> std::string {
        // p is just after '{'
        for (;;) {
            while (p < s.size() && s[p] == ' ')
                ++p;
            if (p < s.size() && s[p] == '}') {
                ++p;
                return v.empty() ? "empty array" : "";
            }
            // an integer literal as the C++ compiler reads it: decimal,
            // 0x... hexadecimal (the generator's stream may have been left
            // in std::hex << std::showbase by encode_dispatch_data), or -
            // with a leading 0 - octal
            std::size_t q = p;
            while (q < s.size() && std::isalnum((unsigned char)s[q]))
                ++q;
            if (q == p || !std::isdigit((unsigned char)s[p]))
                return "expected an integer constant";
            {
                std::string tok = s.substr(p, q - p);
                char* end = nullptr;
                unsigned long long val = std::strtoull(tok.c_str(), &end, 0);
                if (!end || *end)
                    return "not an integer constant: " + tok;
                v.push_back(val);
            }
            p = q;
            while (p < s.size() && s[p] == ' ')
                ++p;
            if (p < s.size() && s[p] == ',')
                ++p;
            else if (p >= s.size() || s[p] != '}')
                return "expected ',' or '}'";
        }
    };
    while (i < text.size()) {
        std::size_t eol = text.find('\n', i);
        if (eol == std::string::npos)
            eol = text.size();
        std::string line = text.substr(i, eol - i);
        i = eol + 1;
        if (line.empty())
            continue;
        if (line.compare(0, head.size(), head) != 0)
            return "line does not start a static_offsets specialisation";
        const std::string open = "> {static constexpr std::size_t slots[] = {";
        std::size_t p = line.find(open);
        if (p == std::string::npos)
            return "slots declaration not found";
        EmittedOffsets eo;
        eo.method = line.substr(head.size(), p - head.size());
        p += open.size();
        std::string why = list(line, p, eo.slots);
        if (!why.empty())
            return "slots: " + why;
        const std::string mid =
            "; static constexpr std::size_t strides[] = {";
        if (line.compare(p, mid.size(), mid) == 0) {
            p += mid.size();
            why = list(line, p, eo.strides);
            if (!why.empty())
                return "strides: " + why;
        }
        if (line.substr(p) != "; };")
            return "specialisation not closed with '; };'";
        out.push_back(eo);
    }
    return "";
}

} // namespace ys
