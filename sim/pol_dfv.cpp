#include "pols.hpp"
namespace ys {
static WorldT<pol::dfv> the_world("dfv");
}
