// twsched (C16): the typed world under the seeded scheduler. Policy P is
// registered through the real front-end and updated on the main thread; then
// 2-5 caller threads call its methods (every parameter flavour, casts across
// multiple and virtual inheritance, virtual_ptr construction, assignment and
// conversion) while one more thread takes a second policy Q through a
// load / unload / update / check history. Every call must give what the same
// call gives single-threaded, and ThreadSanitizer must stay silent.
#include "tw.cpp"

#include "schedcore.hpp"

#include <thread>

#include <yorel/yomm2/detail/verif_hooks.hpp>

namespace ys {

namespace {

const char* const tws_pols[] = {"tw_ref", "tw_dbg", "tw_rel", "tw_ind", "tw_cus", "tw_dfr", "tw_dfh"};

J tws_gen(std::uint64_t seed, int tier, long index) {
    Rng r(seed ^ 0x7575);
    J c = J::obj();
    std::string pa = r.chance(0.4) ? "tw_ref" : tws_pols[r.below(7)];
    std::string pb = tws_pols[r.below(7)];
    while (pb == pa)
        pb = tws_pols[r.below(7)];
    c.set("policy", pa);
    c.set("other_policy", pb);
    // P: a canonical registration, all methods, a seeded subset of definitions
    J setup = J::arr();
    auto push = [&](J& to, const char* op, int k) {
        J e = J::arr();
        e.push(op);
        if (k >= 0)
            e.push(k);
        to.push(e);
    };
    constexpr int M_BEGIN = 25, M_END = 37, NITEMS = 77;
    push(setup, "load", 0);
    push(setup, "load", 15);
    std::vector<int> ms, ds;
    for (int k = M_BEGIN; k < M_END; ++k)
        if (r.chance(0.8))
            ms.push_back(k);
    for (int k = M_END; k < NITEMS - 1; ++k)
        if (r.chance(0.7))
            ds.push_back(k);
    r.shuffle(ms);
    r.shuffle(ds);
    for (int k : ms)
        push(setup, "load", k);
    for (int k : ds)
        push(setup, "load", k);
    push(setup, "update", -1);
    c.set("setup", setup);
    // Q: any typed-world history
    J q = tw_gen(r.next(), tier, index);
    J qe = J::arr();
    for (auto& e : q.at("events").a)
        if (!(e.a.size() && e.a[0].s == "load_fail" && pb != "tw_cus"))
            qe.push(e);
    c.set("other_events", qe);
    c.set("callers", (int)r.range(2, 5));
    c.set("ops_per_caller", (int)r.range(3, tier ? 40 : 20));
    c.set("script_seed", J((unsigned long long)r.next()));
    c.set("sched_seed", J((unsigned long long)r.next()));
    c.set("hook_yields", r.chance(0.6) ? (int)r.range(5, 60) : 0);
    c.set("atom_period", r.chance(0.7) ? (int)r.range(1, 5) : 0);
    c.set("atom_budget", (int)r.range(10, 120));
    c.set("cold", r.chance(0.15) ? 1 : 0);
    return c;
}

struct TwsOp {
    int method = 0;
    std::vector<int> tuple;
    int route = 0;
};

MiniOutcome tws_run(const J& c) {
    MiniOutcome o;
    std::string pa = c.gets("policy", "tw_ref"), pb = c.gets("other_policy", "tw_dbg");
    if (pa == pb) {
        o.detail = "invalid: one policy";
        return o;
    }
    auto A = tw_driver(pa);
    auto B = tw_driver(pb);
    for (auto& e : c.at("setup").a)
        A->step(e);
    auto menu = A->callable();
    if (!A->clean() || menu.empty()) {
        o.detail = "invalid: nothing to call";
        A->cleanup();
        B->cleanup();
        return o;
    }
    int ncallers = (int)c.geti("callers", 2);
    if (ncallers < 1 || ncallers + 1 > MAXTASK) {
        o.detail = "invalid: tasks";
        A->cleanup();
        B->cleanup();
        return o;
    }
    // scripts from the script seed and the menu of the registry as updated
    Rng sr(c.getu("script_seed", 1));
    int nops = (int)c.geti("ops_per_caller", 5);
    std::vector<std::vector<TwsOp>> scripts((std::size_t)ncallers);
    for (auto& sc : scripts)
        for (int i = 0; i < nops; ++i) {
            auto& m = menu[sr.below(menu.size())];
            TwsOp op;
            op.method = m.first;
            for (auto& cs : m.second)
                op.tuple.push_back(cs[sr.below(cs.size())]);
            op.route = (int)sr.below(2);
            sc.push_back(op);
        }
    bool cold = c.geti("cold", 0) != 0;
    std::vector<std::vector<std::string>> seq((std::size_t)ncallers), par((std::size_t)ncallers);
    auto run_seq = [&] {
        for (int t = 0; t < ncallers; ++t)
            for (auto& op : scripts[(std::size_t)t])
                seq[(std::size_t)t].push_back(A->call(op.method, op.tuple, op.route));
    };
    if (!cold)
        run_seq();
    for (int t = 0; t < ncallers; ++t)
        par[(std::size_t)t].resize(scripts[(std::size_t)t].size());

    int ntasks = ncallers + 1;
    int hook_yields = (int)c.geti("hook_yields", 0);
    sched_reset(ntasks, hook_yields, (int)c.geti("atom_period", 0), (int)c.geti("atom_budget", 0));
    yorel::yomm2::verif::hooks.yield = hook_yields ? &hook_yield : nullptr;
    std::vector<std::thread> threads;
    for (int t = 0; t < ncallers; ++t)
        threads.emplace_back([&, t] {
            task_begin(t);
            auto& sc = scripts[(std::size_t)t];
            for (std::size_t i = 0; i < sc.size(); ++i) {
                par[(std::size_t)t][i] = A->call(sc[i].method, sc[i].tuple, sc[i].route);
                task_yield();
            }
            task_end();
        });
    threads.emplace_back([&] {
        task_begin(ncallers);
        for (auto& e : c.at("other_events").a) {
            B->step(e);
            task_yield();
        }
        task_end();
    });
    Rng pick(c.getu("sched_seed", 1));
    Hash sh;
    std::uint64_t steps = 0;
    for (;;) {
        std::vector<int> runnable;
        for (int t = 0; t < ntasks; ++t)
            if (!sched_is_done(t))
                runnable.push_back(t);
        if (runnable.empty())
            break;
        int t = runnable[pick.below(runnable.size())];
        sh.u64((std::uint64_t)t);
        sched_release(t);
        ++steps;
    }
    for (auto& th : threads)
        th.join();
    yorel::yomm2::verif::hooks.yield = nullptr;
    if (cold)
        run_seq();
    Hash h;
    h.u64(sh.h);
    for (int t = 0; t < ncallers; ++t)
        for (std::size_t i = 0; i < seq[(std::size_t)t].size(); ++i) {
            auto &a = seq[(std::size_t)t][i], &b = par[(std::size_t)t][i];
            h.str(b);
            if (a != b && o.key.empty()) {
                auto& op = scripts[(std::size_t)t][i];
                o.key = "C16/twsched/result-differs";
                o.detail = "task " + std::to_string(t) + " op " + std::to_string(i) +
                    " (method " + std::to_string(op.method) + ", class " +
                    std::to_string(op.tuple[0]) + ", route " + std::to_string(op.route) +
                    ") under " + pa + ": " + b + " with the threads running, " + a +
                    " single-threaded";
            }
        }
    for (auto& t : B->trace())
        h.str(t);
    std::uint64_t ncalls = (std::uint64_t)ncallers * (std::uint64_t)nops;
    bool okA = A->cleanup(), okB = B->cleanup();
    if (!okA || !okB)
        o.poisoned = true;
    o.hash = h.h;
    Hash sg;
    sg.u64(sh.h);
    sg.str(pa + pb);
    sg.u64(c.getu("script_seed", 0));
    o.signature = sg.h;
    o.nontrivial = ncallers >= 2 && steps > (std::uint64_t)ntasks;
    o.counters["events"] = steps;
    o.counters["caller_ops"] = ncalls;
    o.counters["tasks"] = (std::uint64_t)ntasks;
    o.counters["yields_before_atomic_operations"] = sched_atom_yields();
    if (cold)
        o.counters["cold_runs"] = 1;
    if (pa == "tw_ref")
        o.counters["runs_with_std_rtti_callers"] = 1;
    return o;
}

std::vector<J> tws_shrinks(const J& c) {
    std::vector<J> out;
    auto drop_chunks = [&](const char* key) {
        auto& evs = c.at(key).a;
        for (std::size_t chunk = evs.size() / 2; chunk >= 1; chunk /= 2) {
            for (std::size_t i = 0; i + chunk <= evs.size(); i += chunk) {
                J d = c;
                J ne = J::arr();
                for (std::size_t k = 0; k < evs.size(); ++k)
                    if (k < i || k >= i + chunk)
                        ne.push(evs[k]);
                d.set(key, ne);
                out.push_back(d);
            }
            if (chunk == 1)
                break;
        }
    };
    drop_chunks("other_events");
    if (c.geti("callers", 2) > 2) {
        J d = c;
        d.set("callers", (int)c.geti("callers", 2) - 1);
        out.push_back(d);
    }
    for (int n = (int)c.geti("ops_per_caller", 3); n > 1;) {
        n = n / 2;
        J d = c;
        d.set("ops_per_caller", std::max(1, n));
        out.push_back(d);
        break;
    }
    for (const char* k : {"hook_yields", "atom_period", "cold"})
        if (c.geti(k, 0)) {
            J d = c;
            d.set(k, 0);
            out.push_back(d);
        }
    drop_chunks("setup");
    return out;
}

} // namespace

MiniEngine twsched_engine() {
    MiniEngine e;
    e.name = "twsched";
    e.prop = "C16";
    e.gen = tws_gen;
    e.run = tws_run;
    e.shrinks = tws_shrinks;
    e.pristine = [](const J& c) { return c.geti("cold", 0) != 0; };
    e.summary = [](const J& c) {
        J s = J::obj();
        for (const char* k : {"policy", "other_policy"})
            s.set(k, c.gets(k, ""));
        for (const char* k : {"callers", "ops_per_caller", "hook_yields", "atom_period", "cold"})
            s.set(k, (int)c.geti(k, 0));
        s.set("setup_events", J((unsigned long long)c.at("setup").a.size()));
        s.set("other_policy_events", J((unsigned long long)c.at("other_events").a.size()));
        return s;
    };
    return e;
}

} // namespace ys
