// Type-erased interface between the plan interpreter (exec.cpp, no yomm2
// templates) and one policy's instantiation of the real library (world.hpp).
#pragma once

#include "plan.hpp"

#include <cstdint>
#include <string>
#include <vector>

namespace ys {

struct Caps {
    bool hash = false;      // has a type_hash facet
    bool checked = false;   // runtime_checks (checked_perfect_hash)
    bool lookup_checked = false; // ... and dynamic_vptr goes through the
                                 // checked hash (not so for release_shared)
    bool indirect = false;  // indirect_vptr
    bool map = false;       // vptr_map
    bool deferred = false;  // deferred_static_rtti
    bool stdrtti = false;   // real std_rtti on the K<c> tokens
    bool throws = false;    // throw_error facet
    bool vectored = false;  // settable Policy::error
    bool compat = false;    // settable Policy::call_error
    bool trace = false;     // has trace facet (to a null stream)
    bool small_ids = false; // vptr_vector without hash: ids are indexes
    bool static_offsets = false; // methods dispatch through static_offsets<>
};

enum ErrAlt {
    EA_NONE = 0,
    EA_RESOLUTION = 1,
    EA_UNKNOWN_CLASS = 2,
    EA_HASH_SEARCH = 3,
    EA_METHOD_TABLE = 4,
    EA_STATIC_SLOT = 5,
    EA_STATIC_STRIDE = 6,
    EA_GENERIC = 7,
    EA_BAD_ALLOC = 8,
    EA_OTHER = 9
};

struct ErrInfo {
    int alt = EA_NONE;
    int status = 0; // resolution_error::status
    std::size_t arity = 0;
    tid types[16] = {};
    tid type = 0; // unknown_class_error / method_table_error
    std::size_t attempts = 0, buckets = 0;
    int handler_calls = 0;
    int via_call_error = 0;
    int handler_uid = -1; // which policy's harness handler received it
};

struct CallArg {
    int cls = 0;
    int alias = 0;
    int route = 0;
    int vslot = -1; // >= 0: use the held virtual_ptr in that slot
};

struct Frame {
    int slot = -1, body = -1;
    int n = 0;
    std::uintptr_t echo[8] = {};
};

struct CallOut {
    int nframes = 0;
    Frame frames[4];
    ErrInfo err;               // error raised by the call (or by next)
    bool returned = false;     // the call returned normally
    int ret = 0;               // its return value
    std::uintptr_t pf = 0;     // resolve route: the pointer returned
    std::uintptr_t expect_echo[8] = {}; // what the definition must see
    int nparams = 0;
};

struct Report {
    std::size_t cells = 0, concrete_cells = 0, not_implemented = 0,
                concrete_not_implemented = 0, ambiguous = 0,
                concrete_ambiguous = 0;
};

struct UpdateOut {
    bool completed = false;
    ErrInfo err;
    Report report;
    std::size_t multi_cells = 0; // sum of multi-method dispatch table sizes
                                 // in the compiler object returned
    std::size_t allocs = 0;      // allocations made during update
    std::string encoded;         // encode_dispatch_data's output (on request)
};

// what decode_dispatch_data did (C13)
struct DecodeOut {
    bool parsed = false;    // the emitted text has the documented shape
    std::string parse_why;
    bool completed = false; // decode returned
    ErrInfo err;            // error raised meanwhile (hash search)
    std::size_t headroom = 0, nslots = 0, nvtbls = 0, ndecoded = 0, ndtbls = 0;
};

struct Snap {
    std::uintptr_t dd_begin = 0, dd_end = 0; // dispatch data [begin, end)
    std::uintptr_t static_vptr[MAXC] = {};   // value of each static vptr
    std::uintptr_t static_vptr_addr[MAXC] = {}; // address of that variable
    tid hash_mult = 0;
    std::size_t hash_shift = 0, hash_length = 0, hash_min = 0, hash_max = 0;
    std::size_t vptrs_size = 0, control_size = 0, indirect_size = 0;
    int handler_is_ours = 0;
};

struct SlotInfo {
    const char* kinds = ""; // one char per parameter, see world.hpp
    int arity = 0;
    int nparams = 0;
    std::size_t slots_strides[16] = {};
    std::uintptr_t pf_not_implemented = 0, pf_ambiguous = 0;
    // static_offsets<method> as the call path of this policy reads them
    bool has_static = false;
    std::size_t st_slots[8] = {}, st_strides[8] = {};
};

struct Lookup {
    bool ok = false;       // id accepted and index in range
    bool rejected = false; // checked hash would report unknown class
    std::size_t index = 0;
    std::uintptr_t vptr = 0;     // what dynamic_vptr would return
    std::uintptr_t indirect = 0; // indirect_vptrs[index] (address), if any
};

struct VpInfo {
    bool live = false;
    std::uintptr_t obj = 0;  // get()
    std::uintptr_t vptr = 0; // _vptr()
    long use_count = 0;      // shared flavour
};

struct IdRef {
    int cls;
    int alias;
};

struct PolicyOps {
    std::string name;
    Caps caps;
    int nslots = 0;
    int uid = -1; // position in all_policies()

    virtual ~PolicyOps() = default;

    virtual void init() = 0;  // once, at start-up
    virtual void reset() = 0; // back to load-time state
    virtual std::string pristine() = 0; // "" if statics are in load-time state

    virtual void load_class(
        int rec, int cls, int alias, const std::vector<IdRef>& bases,
        bool is_abstract) = 0;
    virtual void unload_class(int rec) = 0;
    virtual void
    load_method(int rec, int slot, const std::vector<IdRef>& vp) = 0;
    virtual void unload_method(int slot) = 0;
    // ~method(), then method() again on the same object (storage not zeroed)
    virtual void recycle_method(int slot) = 0;
    virtual void load_def(
        int rec, int slot, int body, const std::vector<IdRef>& vp,
        bool with_next) = 0;
    virtual void unload_def(int rec) = 0;

    virtual UpdateOut update(const Event& faults) = 0;
    virtual void set_handler(int mode) = 0;

    virtual CallOut call(
        int slot, const CallArg* args, int nargs, bool resolve_only,
        bool follow_next, int final_as) = 0;

    virtual ErrInfo
    vp_make(int vslot, int cls, int alias, int route, bool shared) = 0;
    virtual void vp_copy(int to, int from, int how) = 0;
    virtual void vp_drop(int vslot) = 0;
    virtual VpInfo vp_info(int vslot) = 0;

    virtual std::vector<int> cat_classes() = 0; // record ids, list order
    virtual std::vector<int> cat_methods() = 0; // slots, list order
    virtual std::vector<int> cat_defs(int slot) = 0;
    // size() / empty() as the catalogs themselves report them
    virtual void cat_sizes(std::size_t& ncls, std::size_t& nmeth, bool& ecls,
                           bool& emeth) = 0;
    virtual std::size_t cat_defs_size(int slot, bool& empty) = 0;

    virtual Snap snap() = 0;
    virtual bool slot_info(int slot, SlotInfo& out) = 0;
    virtual std::uintptr_t body_pf(int slot, int body) = 0;
    virtual std::uintptr_t next_cell(int slot, int body) = 0;
    virtual Lookup lookup(tid id) = 0;
    virtual tid class_id(int cls, int alias) = 0; // id this policy uses
    virtual std::uint64_t published_checksum() = 0;

    // C12: the real generator's text for one method (slot >= 0) or for the
    // whole policy (slot < 0); the values the "compiled" program uses
    virtual std::string gen_offsets(int slot, bool fresh_generator) {
        (void)slot;
        (void)fresh_generator;
        return "";
    }
    virtual void set_offsets(
        int slot, const std::vector<std::size_t>& slots,
        const std::vector<std::size_t>& strides) {
        (void)slot;
        (void)slots;
        (void)strides;
    }
    // C13: decode the emitted text in this policy ("another process holding
    // the same registrations"); new_process() forgets everything published
    virtual DecodeOut decode(const std::string& text, const Event& faults) {
        (void)text;
        (void)faults;
        return DecodeOut();
    }
};

// registry of policies (filled by static constructors in pol_*.cpp)
std::vector<PolicyOps*>& all_policies();
PolicyOps* find_policy(const std::string& name);

// ---------------------------------------------------------------------------
// process-wide harness state shared by all policy instantiations

struct Globals {
    tid ids[MAXC][MAXALIAS] = {}; // current id table (the "loader")
    int nalias[MAXC] = {};
    // fault knobs read by the hooks
    std::uint64_t hash_seed = 0;   // 0: shipped
    std::uint64_t hash_budget = 0; // 0: shipped
    // allocation fault
    long long alloc_countdown = -1; // -1 disarmed
    bool alloc_armed = false;
    std::size_t alloc_count = 0;
    // abort probes: fd to report to from inside handler / bodies, else -1
    int probe_fd = -1;
    // probe counters (hook H3), written only through the hook
    std::uint64_t probes[32] = {};
};

extern Globals g;

constexpr tid OBJ_STATIC_ID = 0x7fffffff00000001ULL; // static_type<Obj>()
constexpr tid NONOBJ_ID = 0x7fffffff00000002ULL;     // dynamic_type(non Obj)

void set_world_ids(const World& w);
tid canon_id(tid id);
void* harness_object(int cls, int alias);
void probe_write(const char* fmt, ...);
constexpr int PROBE_HASH_ATTEMPT = 5; // == verif::probe_hash_attempt

} // namespace ys
