#include "pols.hpp"
namespace ys {
static WorldT<pol::relx> the_world("relx");
}
