#include "pols.hpp"
namespace ys {
static WorldT<pol::cind> the_world("cind");
}
