// Plan interpreter: walks the events of a plan, keeps the reference model in
// step, checks legality (an illegal plan is INVALID, never a violation), and
// evaluates the oracles.
#include "exec.hpp"
#include "emitted.hpp"

#include <algorithm>
#include <csignal>
#include <cstdio>
#include <cstring>
#include <fcntl.h>
#include <set>
#include <sstream>
#include <sys/time.h>
#include <sys/wait.h>
#include <unistd.h>

namespace ys {

void make_objects();
void install_hooks();

void Stats::add(const Stats& o) {
    events += o.events;
    loads += o.loads;
    unloads += o.unloads;
    updates += o.updates;
    updates_completed += o.updates_completed;
    updates_aborted += o.updates_aborted;
    checks += o.checks;
    tuples += o.tuples;
    calls += o.calls;
    error_calls += o.error_calls;
    next_checked += o.next_checked;
    cells_checked += o.cells_checked;
    ids_checked += o.ids_checked;
    rejects_checked += o.rejects_checked;
    vp_made += o.vp_made;
    vp_used += o.vp_used;
    vp_survived_update += o.vp_survived_update;
    forks += o.forks;
    relocations += o.relocations;
    variants += o.variants;
    hash_failures += o.hash_failures;
    alloc_failures += o.alloc_failures;
    unknown_class_reports += o.unknown_class_reports;
    multi_applicable += o.multi_applicable;
    mi_classes += o.mi_classes;
    ambiguous_cells += o.ambiguous_cells;
    nodef_cells += o.nodef_cells;
    inconclusive += o.inconclusive;
    for (auto& kv : o.faults)
        faults[kv.first] += kv.second;
    for (auto& kv : o.reach)
        reach[kv.first] += kv.second;
}

J Stats::json() const {
    J j = J::obj();
#define F(x) j.set(#x, J((unsigned long long)x))
    F(events);
    F(loads);
    F(unloads);
    F(updates);
    F(updates_completed);
    F(updates_aborted);
    F(checks);
    F(tuples);
    F(calls);
    F(error_calls);
    F(next_checked);
    F(cells_checked);
    F(ids_checked);
    F(rejects_checked);
    F(vp_made);
    F(vp_used);
    F(vp_survived_update);
    F(forks);
    F(relocations);
    F(variants);
    F(hash_failures);
    F(alloc_failures);
    F(unknown_class_reports);
    F(multi_applicable);
    F(mi_classes);
    F(ambiguous_cells);
    F(nodef_cells);
    F(inconclusive);
#undef F
    J f = J::obj();
    for (auto& kv : faults)
        f.set(kv.first, J((unsigned long long)kv.second));
    j.set("faults_fired", f);
    J rc = J::obj();
    for (auto& kv : reach)
        rc.set(kv.first, J((unsigned long long)kv.second));
    j.set("reach", rc);
    return j;
}

void exec_init() {
    make_objects();
    install_hooks();
    for (auto p : all_policies())
        p->init();
}

namespace {

struct HeldVp {
    bool live = false;
    int cls = 0, alias = 0, route = 0, epoch = 0;
    bool shared = false;
    std::uintptr_t obj = 0; // expected get()
};

struct PolState {
    PolicyOps* ops = nullptr;
    std::string name;
    Registry live, updated;
    bool clean = false;   // last update completed and live == updated
    bool aborted = false; // last update did not complete
    int epoch = 0;
    int handler_mode = HM_THROW;
    HeldVp held[MAXVP];
    int handler_ours = 0;        // the installed handler is the harness's
    std::size_t last_allocs = 0; // allocations of the last completed update
    std::uint64_t checksum = 0; // published data at this policy's last event
    bool checksum_valid = false;
    // C13: the "file" written by the last encoding update, the registrations
    // it was made from (catalog order) and what calls did right after it
    std::string encoded;
    Registry enc_reg;
    int enc_epoch = -1;
    std::map<std::string, std::string> enc_table;
    bool enc_table_valid = false;
    bool fresh_process = true; // nothing was updated or decoded yet
    bool decoded = false;      // tables come from decode_dispatch_data
};

struct Exec {
    const Plan& plan;
    const ExecOpts& opts;
    RunResult res;
    World w; // current world (ids may be relocated)
    std::vector<PolState> ps;
    std::vector<char> loaded; // per record
    Hash evh;
    Hash sig;
    int cur_event = -1;
    bool stop = false;
    // Differential attribution for the two properties about generated
    // artefacts. While a policy whose tables come from decode_dispatch_data
    // (C13) or whose calls read generated static offsets (C12) is being
    // checked, a violation of another property's oracle counts for that
    // property unless the same kind of violation was already seen in the
    // baseline (the same policy before decoding, the twin policy without
    // static offsets): what update itself gets wrong is not the generator's.
    std::string derived_prop, derived_tag;
    std::set<std::string> baseline_keys;

    Exec(const Plan& p, const ExecOpts& o) : plan(p), opts(o), w(p.w) {
    }

    // ---- logging (never touches the PRNG, never prints addresses)
    void log(const std::string& line) {
        evh.str(line);
        if (opts.keep_log)
            res.log.push_back(line);
    }

    void invalid(const std::string& why) {
        if (res.status != RS_INVALID) {
            res.status = RS_INVALID;
            res.invalid_why = why;
        }
        stop = true;
    }

    void violate(
        const std::string& prop, const std::string& oracle,
        const std::string& cls, const std::string& detail, J diag = J::obj()) {
        Violation v;
        v.prop = prop;
        v.oracle = oracle;
        v.cls = cls;
        v.detail = detail;
        v.event = cur_event;
        v.diag = std::move(diag);
        // what only goes wrong after a decode (or with static offsets) is
        // C13's (C12's) when that property, or none, is the focus; under
        // another focus - a plan borrowed from the C12 / C13 profile - a
        // violation of the focus property's own oracle stays its own
        if (!derived_prop.empty() && prop != derived_prop &&
            (opts.focus.empty() || opts.focus == derived_prop)) {
            if (!baseline_keys.count(v.key())) {
                v.oracle = derived_tag + "-" + prop + "-" + oracle;
                v.prop = derived_prop;
            }
        } else if (derived_prop.empty())
            baseline_keys.insert(v.key());
        if (opts.tolerate.count(v.key())) {
            log("KNOWN " + v.key() + " " + detail);
            if (res.tolerated.size() < 8)
                res.tolerated.push_back(std::move(v));
            return;
        }
        const std::string prop_final = v.prop;
        log("VIOLATION " + v.key() + " " + detail);
        res.v.push_back(std::move(v));
        // going on after these could crash the worker: stop whatever the focus
        // (a shared cell or a wrong word is safe to go on with: every real
        // call is preceded by the bounds-checked walk of its own tuple)
        bool fatal = false;
        if (res.v.back().oracle == "catalog")
            res.poisoned = true; // a corrupt catalog outlives this run
        if (fatal)
            res.poisoned = true;
        if (res.status == RS_OK)
            res.status = RS_VIOLATION;
        if (opts.stop_at_first &&
            (opts.focus.empty() || prop_final == opts.focus || fatal ||
             res.v.size() >= 20))
            stop = true;
    }

    static std::string join(const std::vector<int>& v) {
        std::string s;
        for (std::size_t i = 0; i < v.size(); ++i) {
            if (i)
                s += ",";
            s += std::to_string(v[i]);
        }
        return s;
    }

    // alias used when record `ri` refers to class c at position pos
    int ref_alias(int ri, int pos, int c) const {
        int n = (int)w.ids[c].size();
        if (n <= 1)
            return 0;
        return (ri * 7 + pos * 3) % n;
    }

    std::vector<IdRef> refs(int ri, const std::vector<int>& classes) const {
        std::vector<IdRef> v;
        int pos = 0;
        for (int c : classes)
            v.push_back(IdRef{c, ref_alias(ri, pos++, c)});
        return v;
    }

    bool ids_unique() const {
        std::set<tid> seen;
        for (int c = 0; c < w.ncls; ++c)
            for (tid id : w.ids[c]) {
                if (id == OBJ_STATIC_ID || id == NONOBJ_ID || id == ~(tid)0)
                    return false;
                if (!seen.insert(id).second)
                    return false;
            }
        return true;
    }

    // ---------------------------------------------------------------------
    // catalogs (C18): after every load / unload, every catalog of every
    // policy enumerates exactly the live registrations, in order

    void check_catalogs(PolState& s) {
        auto& ops = *s.ops;
        J d = J::obj();
        d.set("policy", s.name);
        // classes
        std::vector<int> real = ops.cat_classes();
        if (real != s.live.classes)
            return violate(
                "C18", "catalog", "classes",
                "class catalog [" + join(real) + "] != live [" +
                    join(s.live.classes) + "]",
                d);
        std::vector<int> rm = ops.cat_methods();
        std::vector<int> want;
        for (int mi : s.live.methods)
            want.push_back(plan.recs[mi].slot);
        if (rm != want)
            return violate(
                "C18", "catalog", "methods",
                "method catalog [" + join(rm) + "] != live [" + join(want) +
                    "]",
                d);
        std::size_t nc, nm;
        bool ec, em;
        ops.cat_sizes(nc, nm, ec, em);
        if (nc != s.live.classes.size() || ec != s.live.classes.empty() ||
            nm != s.live.methods.size() || em != s.live.methods.empty())
            return violate(
                "C18", "catalog", "size",
                "size()/empty() of a catalog disagree with the live set", d);
        for (int mi : s.live.methods) {
            int slot = plan.recs[mi].slot;
            std::vector<int> rd = ops.cat_defs(slot);
            std::vector<int> wd;
            auto it = s.live.defs.find(mi);
            if (it != s.live.defs.end())
                wd = it->second;
            if (rd != wd)
                return violate(
                    "C18", "catalog", "definitions",
                    "definition catalog of slot " + std::to_string(slot) +
                        " [" + join(rd) + "] != live [" + join(wd) + "]",
                    d);
            bool e;
            std::size_t n = ops.cat_defs_size(slot, e);
            if (n != wd.size() || e != wd.empty())
                return violate(
                    "C18", "catalog", "size",
                    "size()/empty() of a definition catalog disagree", d);
        }
    }

    // ---------------------------------------------------------------------
    // isolation (C14): an event on one policy leaves the published data, the
    // handler and the held pointers of every other policy untouched

    void note_own_event(PolState& s) {
        s.checksum = s.ops->published_checksum();
        s.checksum_valid = true;
        s.handler_ours = s.ops->snap().handler_is_ours;
    }

    void check_isolation(int acting) {
        for (int i = 0; i < (int)ps.size(); ++i) {
            if (i == acting)
                continue;
            auto& s = ps[i];
            if (!s.checksum_valid)
                continue;
            auto now = s.ops->published_checksum();
            if (now != s.checksum) {
                J d = J::obj();
                d.set("policy", s.name);
                d.set("acting", acting >= 0 ? ps[acting].name : "world");
                return violate(
                    "C14", "isolation", "published-data-changed",
                    "data published for policy " + s.name +
                        " changed during an event on another policy",
                    d);
            }
            if (s.ops->snap().handler_is_ours != s.handler_ours) {
                J d = J::obj();
                d.set("policy", s.name);
                d.set("acting", acting >= 0 ? ps[acting].name : "world");
                return violate(
                    "C14", "isolation", "handler-changed",
                    "the error handler of policy " + s.name +
                        " changed during an event on another policy",
                    d);
            }
            check_catalogs(s);
            if (stop)
                return;
            for (int k = 0; k < MAXVP; ++k) {
                if (!s.held[k].live)
                    continue;
                VpInfo vi = s.ops->vp_info(k);
                if (!vi.live || vi.obj != s.held[k].obj) {
                    J d = J::obj();
                    d.set("policy", s.name);
                    return violate(
                        "C14", "isolation", "virtual_ptr-changed",
                        "a virtual_ptr of policy " + s.name +
                            " changed during an event on another policy",
                        d);
                }
            }
        }
    }

    // ---------------------------------------------------------------------
    // load / unload

    void do_load(const Event& e) {
        std::set<int> touched;
        for (int ri : e.recs) {
            if (ri < 0 || ri >= (int)plan.recs.size())
                return invalid("load: bad record index");
            if (loaded[ri])
                return invalid("load: record already loaded");
            auto& r = plan.recs[ri];
            if (r.pol < 0 || r.pol >= (int)ps.size())
                return invalid("load: bad policy index");
            auto& s = ps[r.pol];
            switch (r.kind) {
            case RK_CLASS: {
                if (r.cls < 0 || r.cls >= w.ncls)
                    return invalid("load: bad class");
                if (r.alias < 0 || r.alias >= (int)w.ids[r.cls].size())
                    return invalid("load: bad alias");
                if ((int)r.bases.size() > MAXBASES)
                    return invalid("load: too many bases");
                for (int b : r.bases)
                    if (b < 0 || b >= w.ncls)
                        return invalid("load: bad base");
                // one record per (class, alias)
                for (int o : s.live.classes)
                    if (plan.recs[o].cls == r.cls &&
                        plan.recs[o].alias == r.alias && s.ops->caps.stdrtti)
                        (void)0; // std_rtti: several records, same id: fine
                s.ops->load_class(
                    ri, r.cls, r.alias, refs(ri, r.bases),
                    w.abstract[r.cls] != 0);
                s.live.classes.push_back(ri);
                break;
            }
            case RK_METHOD: {
                if (r.slot < 0 || r.slot >= s.ops->nslots)
                    return invalid("load: bad slot");
                for (int mi : s.live.methods)
                    if (plan.recs[mi].slot == r.slot)
                        return invalid("load: slot in use");
                SlotInfo si;
                s.ops->slot_info(r.slot, si);
                if ((int)r.vp.size() != si.arity)
                    return invalid("load: method arity");
                for (int c : r.vp)
                    if (c < 0 || c >= w.ncls)
                        return invalid("load: bad class in method");
                s.ops->load_method(ri, r.slot, refs(ri, r.vp));
                s.live.methods.push_back(ri);
                s.live.defs[ri];
                break;
            }
            case RK_DEF: {
                if (r.meth < 0 || r.meth >= (int)plan.recs.size() ||
                    plan.recs[r.meth].kind != RK_METHOD ||
                    plan.recs[r.meth].pol != r.pol)
                    return invalid("load: bad method reference");
                if (!s.live.has_method(r.meth))
                    return invalid("load: definition before its method");
                auto& m = plan.recs[r.meth];
                if (r.vp.size() != m.vp.size())
                    return invalid("load: definition arity");
                if (r.body < 0 || r.body >= MAXBODY)
                    return invalid("load: bad body");
                for (int di : s.live.defs[r.meth])
                    if (plan.recs[di].body == r.body)
                        return invalid("load: body in use");
                for (int c : r.vp)
                    if (c < 0 || c >= w.ncls)
                        return invalid("load: bad class in definition");
                s.ops->load_def(ri, m.slot, r.body, refs(ri, r.vp), !r.nonext);
                s.live.defs[r.meth].push_back(ri);
                break;
            }
            default:
                return invalid("load: bad kind");
            }
            loaded[ri] = 1;
            touched.insert(r.pol);
            ++res.st.loads;
        }
        log("load " + join(e.recs));
        for (int p : touched) {
            ps[p].clean = false;
            check_catalogs(ps[p]);
            if (stop)
                return;
            note_own_event(ps[p]);
        }
        if (opts.watch_isolation)
            for (int p : touched) {
                // every policy not touched by this event must be unchanged
                if (touched.size() == 1)
                    check_isolation(p);
            }
    }

    void do_unload(const Event& e) {
        std::set<int> touched;
        for (int ri : e.recs) {
            if (ri < 0 || ri >= (int)plan.recs.size() || !loaded[ri])
                return invalid("unload: record not loaded");
            auto& r = plan.recs[ri];
            auto& s = ps[r.pol];
            switch (r.kind) {
            case RK_CLASS:
                s.ops->unload_class(ri);
                s.live.classes.erase(std::find(
                    s.live.classes.begin(), s.live.classes.end(), ri));
                break;
            case RK_METHOD:
                if (!s.live.defs[ri].empty())
                    return invalid("unload: method before its definitions");
                s.ops->unload_method(r.slot);
                s.live.methods.erase(std::find(
                    s.live.methods.begin(), s.live.methods.end(), ri));
                s.live.defs.erase(ri);
                break;
            case RK_DEF: {
                s.ops->unload_def(ri);
                auto& v = s.live.defs[r.meth];
                v.erase(std::find(v.begin(), v.end(), ri));
                break;
            }
            }
            loaded[ri] = 0;
            touched.insert(r.pol);
            ++res.st.unloads;
        }
        log("unload " + join(e.recs));
        for (int p : touched) {
            ps[p].clean = false;
            check_catalogs(ps[p]);
            if (stop)
                return;
            note_own_event(ps[p]);
        }
        if (opts.watch_isolation && touched.size() == 1)
            check_isolation(*touched.begin());
    }

    void do_recycle(const Event& e) {
        std::set<int> touched;
        for (int ri : e.recs) {
            if (ri < 0 || ri >= (int)plan.recs.size() || !loaded[ri] ||
                plan.recs[ri].kind != RK_METHOD)
                return invalid("recycle: not a loaded method");
            auto& r = plan.recs[ri];
            auto& s = ps[r.pol];
            s.ops->recycle_method(r.slot);
            // its place in the method catalog is now the last one; its
            // definitions are where they were
            s.live.methods.erase(
                std::find(s.live.methods.begin(), s.live.methods.end(), ri));
            s.live.methods.push_back(ri);
            touched.insert(r.pol);
            ++res.st.faults["method_recycled_in_place"];
        }
        log("recycle " + join(e.recs));
        for (int p : touched) {
            ps[p].clean = false;
            check_catalogs(ps[p]);
            if (stop)
                return;
            note_own_event(ps[p]);
        }
        if (opts.watch_isolation && touched.size() == 1)
            check_isolation(*touched.begin());
    }

    void do_relocate(const Event& e) {
        if (e.cls < 0 || e.cls >= w.ncls)
            return invalid("relocate: bad class");
        if (e.ids.empty() || e.ids.size() > MAXALIAS)
            return invalid("relocate: bad ids");
        for (std::size_t ri = 0; ri < plan.recs.size(); ++ri) {
            if (!loaded[ri])
                continue;
            auto& r = plan.recs[ri];
            bool refd = r.kind == RK_CLASS && r.cls == e.cls;
            for (int b : r.bases)
                refd = refd || b == e.cls;
            for (int c : r.vp)
                refd = refd || c == e.cls;
            if (refd)
                return invalid("relocate: class still referenced");
        }
        for (auto& s : ps)
            for (auto& h : s.held)
                if (h.live && h.cls == e.cls)
                    return invalid("relocate: virtual_ptr to the class held");
        w.ids[e.cls] = e.ids;
        if (!ids_unique())
            return invalid("relocate: ids not unique");
        set_world_ids(w);
        ++res.st.relocations;
        ++res.st.faults["relocate_ids"];
        log("relocate " + std::to_string(e.cls));
    }

    // ---------------------------------------------------------------------
    // installed-data oracles

    struct Walk {
        bool ok = false;
        std::uintptr_t word = 0;
        std::string why;
    };

    static bool in_dd(const Snap& sn, std::uintptr_t a) {
        return a >= sn.dd_begin && a + sizeof(std::uintptr_t) <= sn.dd_end &&
            (a - sn.dd_begin) % sizeof(std::uintptr_t) == 0;
    }

    // bounds-checked re-statement of the documented table walk
    static Walk walk(
        const Snap& sn, const SlotInfo& si, const std::vector<int>& tuple) {
        Walk r;
        const std::size_t W = sizeof(std::uintptr_t);
        const std::size_t dd_words = (sn.dd_end - sn.dd_begin) / W;
        int k = si.arity;
        auto cell = [&](int i, std::uintptr_t& addr) {
            std::uintptr_t vp = sn.static_vptr[tuple[i]];
            if (!vp) {
                r.why = "null v-table pointer for class " +
                    std::to_string(tuple[i]);
                return false;
            }
            std::size_t slot = si.slots_strides[i];
            if (slot > (std::size_t)1 << 24) {
                r.why = "absurd slot";
                return false;
            }
            addr = vp + slot * W;
            if (!in_dd(sn, addr)) {
                r.why = "v-table cell of parameter " + std::to_string(i) +
                    " outside dispatch data";
                return false;
            }
            return true;
        };
        std::uintptr_t a0;
        if (!cell(0, a0))
            return r;
        if (k == 1) {
            r.word = *reinterpret_cast<std::uintptr_t*>(a0);
            r.ok = true;
            return r;
        }
        std::uintptr_t dispatch = *reinterpret_cast<std::uintptr_t*>(a0);
        if (!in_dd(sn, dispatch)) {
            r.why = "row pointer outside dispatch data";
            return r;
        }
        for (int i = 1; i < k; ++i) {
            std::uintptr_t ai;
            if (!cell(i, ai))
                return r;
            std::uintptr_t idx = *reinterpret_cast<std::uintptr_t*>(ai);
            std::size_t stride = si.slots_strides[k + i - 1];
            if (idx > dd_words || stride > dd_words ||
                idx * stride > dd_words) {
                r.why = "group index x stride leaves dispatch data";
                return r;
            }
            dispatch += idx * stride * W;
            if (!in_dd(sn, dispatch)) {
                r.why = "dispatch cell outside dispatch data";
                return r;
            }
        }
        r.word = *reinterpret_cast<std::uintptr_t*>(dispatch);
        r.ok = true;
        return r;
    }

    struct MethodView {
        int rec;
        int slot;
        SlotInfo si; // slots_strides: what the call path of the policy reads
        std::size_t installed[16] = {}; // what update (or decode) installed
        bool offsets_differ = false; // static offsets != installed ones
        std::vector<int> defs; // def records, registration order
    };

    std::vector<MethodView> method_views(PolState& s, const Registry& r) {
        std::vector<MethodView> v;
        for (int mi : r.methods) {
            MethodView m;
            m.rec = mi;
            m.slot = plan.recs[mi].slot;
            s.ops->slot_info(m.slot, m.si);
            for (int i = 0; i < 16; ++i)
                m.installed[i] = m.si.slots_strides[i];
            if (m.si.has_static) {
                // static_offsets<method>: slots[0..k), strides[0..k-1)
                int k = m.si.arity;
                for (int i = 0; i < k; ++i)
                    m.si.slots_strides[i] = m.si.st_slots[i];
                for (int i = 1; i < k; ++i)
                    m.si.slots_strides[k + i - 1] = m.si.st_strides[i - 1];
                for (int i = 0; i < 2 * k - 1; ++i)
                    if (m.si.slots_strides[i] != m.installed[i])
                        m.offsets_differ = true;
            }
            auto it = r.defs.find(mi);
            if (it != r.defs.end())
                m.defs = it->second;
            v.push_back(m);
        }
        return v;
    }

    J base_diag(PolState& s, const Lattice& L) {
        J d = J::obj();
        d.set("policy", s.name);
        bool mi = false;
        for (int c = 0; c < L.n; ++c) {
            if (!L.reg[c])
                continue;
            // direct bases in the closure: ancestors not implied by another
            int nd = 0;
            for (int b = 0; b < L.n; ++b) {
                if (b == c || !L.le(c, b))
                    continue;
                bool implied = false;
                for (int x = 0; x < L.n; ++x)
                    if (x != b && x != c && L.le(c, x) && L.le(x, b))
                        implied = true;
                if (!implied)
                    ++nd;
            }
            if (nd >= 2)
                mi = true;
        }
        d.set("multiple_inheritance", mi);
        // are all class records complete (transitive) base lists?
        bool complete = true;
        for (int ri : s.updated.classes) {
            auto& r = plan.recs[ri];
            std::uint32_t listed = 1u << r.cls;
            for (int b : r.bases)
                listed |= 1u << b;
            if ((listed & L.anc[r.cls]) != L.anc[r.cls])
                complete = false;
        }
        d.set("complete_base_lists", complete);
        d.set("epoch", s.epoch);
        return d;
    }

    // C04: every (class, method, parameter) has a private cell in bounds
    void check_structure(
        PolState& s, const Lattice& L, const Snap& sn,
        const std::vector<MethodView>& mv) {
        for (int c = 0; c < L.n; ++c) {
            if (!L.reg[c])
                continue;
            std::map<std::uintptr_t, std::pair<int, int>> cells;
            for (auto& m : mv) {
                auto& mr = plan.recs[m.rec];
                if (m.offsets_differ)
                    continue; // every call of it is rejected (C12)
                for (int i = 0; i < m.si.arity; ++i) {
                    if (!L.le(c, mr.vp[i]))
                        continue;
                    ++res.st.cells_checked;
                    std::uintptr_t vp = sn.static_vptr[c];
                    J d = base_diag(s, L);
                    d.set("class", c);
                    d.set("slot", m.slot);
                    d.set("param", i);
                    if (!vp)
                        return violate(
                            "C04", "structure", "null-vptr",
                            "class " + std::to_string(c) +
                                " has no v-table pointer after update",
                            d);
                    std::uintptr_t a = vp +
                        m.si.slots_strides[i] * sizeof(std::uintptr_t);
                    if (!in_dd(sn, a))
                        return violate(
                            "C04", "structure", "cell-out-of-bounds",
                            "cell of class " + std::to_string(c) +
                                " for method slot " + std::to_string(m.slot) +
                                " parameter " + std::to_string(i) +
                                " lies outside the dispatch data",
                            d);
                    auto ins = cells.emplace(a, std::make_pair(m.slot, i));
                    if (!ins.second) {
                        d.set("other_slot", ins.first->second.first);
                        d.set("other_param", ins.first->second.second);
                        // C08 states this too ("no two method parameters
                        // ever share a v-table cell in a class")
                        return violate(
                            opts.focus == "C08" ? "C08" : "C04", "structure",
                            "cell-shared",
                            "in class " + std::to_string(c) +
                                " method slot " + std::to_string(m.slot) +
                                " parameter " + std::to_string(i) +
                                " shares its cell with slot " +
                                std::to_string(ins.first->second.first) +
                                " parameter " +
                                std::to_string(ins.first->second.second),
                            d);
                    }
                }
            }
        }
    }

    std::uint32_t registered_aliases(const Registry& r, int c) {
        std::uint32_t m = 0;
        for (int ri : r.classes)
            if (plan.recs[ri].cls == c)
                m |= 1u << plan.recs[ri].alias;
        return m;
    }

    // C05 (+C10: every registered id reaches its class)
    void check_lookup(PolState& s, const Lattice& L, const Snap& sn) {
        auto& ops = *s.ops;
        std::map<std::size_t, tid> used;
        std::set<tid> registered;
        J d = base_diag(s, L);
        for (int c = 0; c < L.n; ++c) {
            if (!L.reg[c])
                continue;
            std::uint32_t am = ops.caps.stdrtti ? 1u
                                                : registered_aliases(s.updated, c);
            for (int a = 0; a < MAXALIAS; ++a) {
                if (!((am >> a) & 1u))
                    continue;
                tid id = ops.class_id(c, a);
                registered.insert(id);
                ++res.st.ids_checked;
                Lookup lk = ops.lookup(id);
                d.set("class", c);
                d.set("alias", a);
                // C10 states it too, for classes with several ids: "every id
                // of a class reaches that class's definitions"
                const char* lp = opts.focus == "C10" &&
                        __builtin_popcount(am) > 1
                    ? "C10" : "C05";
                if (lk.rejected)
                    return violate(
                        lp, "lookup", "registered-id-rejected",
                        "registered id of class " + std::to_string(c) +
                            " is rejected by the checked hash",
                        d);
                if (!lk.ok)
                    return violate(
                        lp, "lookup", "index-out-of-range",
                        "registered id of class " + std::to_string(c) +
                            " maps outside the v-table pointer table",
                        d);
                if (lk.vptr != sn.static_vptr[c])
                    return violate(
                        lp, "lookup", "wrong-vptr",
                        "id of class " + std::to_string(c) + " alias " +
                            std::to_string(a) +
                            " does not reach that class's v-table pointer",
                        d);
                if (ops.caps.indirect &&
                    lk.indirect != sn.static_vptr_addr[c])
                    return violate(
                        "C05", "lookup", "wrong-indirect-vptr",
                        "indirect entry of class " + std::to_string(c) +
                            " is not the address of its static pointer",
                        d);
                if (!ops.caps.map) {
                    auto ins = used.emplace(lk.index, id);
                    if (!ins.second && ins.first->second != id)
                        return violate(
                            "C05", "lookup", "collision",
                            "two registered ids share index " +
                                std::to_string(lk.index),
                            d);
                }
            }
        }
        if (ops.caps.checked) {
            // unregistered ids must be rejected: near misses of registered
            // ids, ids of unregistered classes, a few constants
            std::vector<tid> probes;
            for (tid id : registered) {
                probes.push_back(id + 1);
                probes.push_back(id - 1);
                probes.push_back(id ^ 1);
                probes.push_back(id ^ (tid(1) << 63));
                probes.push_back(id ^ (tid(1) << 32));
                probes.push_back(id + 16);
                probes.push_back(id << 1);
            }
            for (int c = 0; c < w.ncls; ++c)
                for (int a = 0; a < (int)w.ids[c].size(); ++a)
                    probes.push_back(ops.class_id(c, a));
            if (plan.prop == "C07") {
                // "exactly as if the current registrations had been made in
                // a fresh process": what the checked hash answers for the
                // ids of classes that are not (or no longer) registered is
                // part of the outcome table the history differential compares
                auto& table = res.tables[s.name];
                for (int c = 0; c < w.ncls; ++c)
                    for (int a = 0; a < (int)w.ids[c].size(); ++a) {
                        tid id = ops.class_id(c, a);
                        if (registered.count(id) || id == ~(tid)0)
                            continue;
                        table["u" + std::to_string(c) + ":" +
                              std::to_string(a)] =
                            ops.lookup(id).rejected ? "REJ" : "ACC";
                    }
            }
            probes.push_back(0);
            probes.push_back(1);
            probes.push_back(OBJ_STATIC_ID);
            probes.push_back(NONOBJ_ID);
            Rng r(mix3(plan.seed, 0xC05, (std::uint64_t)cur_event));
            for (int i = 0; i < 24; ++i)
                probes.push_back(r.next());
            for (tid id : probes) {
                if (registered.count(id) || id == ~(tid)0)
                    continue;
                ++res.st.rejects_checked;
                Lookup lk = ops.lookup(id);
                if (!lk.rejected) {
                    d.set("id", J((unsigned long long)id));
                    return violate(
                        "C05", "lookup", "unregistered-id-accepted",
                        "an id that was not registered is mapped to a table "
                        "instead of being reported",
                        d);
                }
            }
        }
    }

    // C17
    void check_report(PolState& s, const Lattice& L, const UpdateOut& uo) {
        ReportFlags f = report_flags(plan, s.updated, L);
        auto& r = uo.report;
        J d = base_diag(s, L);
        d.set("not_implemented", J((unsigned long long)r.not_implemented));
        d.set("ambiguous", J((unsigned long long)r.ambiguous));
        d.set(
            "concrete_not_implemented",
            J((unsigned long long)r.concrete_not_implemented));
        d.set(
            "concrete_ambiguous", J((unsigned long long)r.concrete_ambiguous));
        bool has_abstract = false;
        for (int c = 0; c < L.n; ++c)
            if (L.reg[c] && L.abstract[c])
                has_abstract = true;
        d.set("has_abstract", has_abstract);
        if ((r.not_implemented != 0) != f.not_implemented)
            return violate(
                "C17", "report", "not_implemented",
                std::string("report.not_implemented is ") +
                    (r.not_implemented ? "set" : "zero") +
                    " but the registry says otherwise",
                d);
        if ((r.ambiguous != 0) != f.ambiguous)
            return violate(
                "C17", "report", "ambiguous",
                std::string("report.ambiguous is ") +
                    (r.ambiguous ? "set" : "zero") +
                    " but the registry says otherwise",
                d);
        if ((r.concrete_not_implemented != 0) != f.concrete_not_implemented)
            return violate(
                "C17", "report", "concrete_not_implemented",
                std::string("report.concrete_not_implemented is ") +
                    (r.concrete_not_implemented ? "set" : "zero") +
                    " but the registry says otherwise",
                d);
        if ((r.concrete_ambiguous != 0) != f.concrete_ambiguous)
            return violate(
                "C17", "report", "concrete_ambiguous",
                std::string("report.concrete_ambiguous is ") +
                    (r.concrete_ambiguous ? "set" : "zero") +
                    " but the registry says otherwise",
                d);
        if (r.cells != uo.multi_cells) {
            d.set("cells", J((unsigned long long)r.cells));
            d.set("built", J((unsigned long long)uo.multi_cells));
            return violate(
                "C17", "report", "cells",
                "report.cells " + std::to_string(r.cells) + " != " +
                    std::to_string(uo.multi_cells) + " cells built",
                d);
        }
        if (f.ambiguous)
            ++res.st.ambiguous_cells;
        if (f.not_implemented)
            ++res.st.nodef_cells;
    }

    std::uintptr_t expected_pf(PolState& s, const MethodView& m, const Res& r) {
        switch (r.kind) {
        case RES_DEF:
            return s.ops->body_pf(m.slot, plan.recs[r.def].body);
        case RES_NODEF:
            return m.si.pf_not_implemented;
        default:
            return m.si.pf_ambiguous;
        }
    }

    std::string res_str(const Res& r) {
        switch (r.kind) {
        case RES_DEF:
            return "D" + std::to_string(plan.recs[r.def].body);
        case RES_NODEF:
            return "NI";
        default:
            return "AMB";
        }
    }

    std::string word_str(PolState& s, const MethodView& m, std::uintptr_t w_) {
        if (w_ == m.si.pf_not_implemented)
            return "NI";
        if (w_ == m.si.pf_ambiguous)
            return "AMB";
        for (int di : m.defs)
            if (s.ops->body_pf(m.slot, plan.recs[di].body) == w_)
                return "D" + std::to_string(plan.recs[di].body);
        return "BAD";
    }

    bool nonvirtual_between(const SlotInfo& si) {
        // a non-virtual parameter after the first virtual one and before the
        // last virtual one
        std::string k = si.kinds;
        std::size_t first = k.find_first_not_of('I');
        std::size_t last = k.find_last_not_of('I');
        if (first == std::string::npos)
            return false;
        for (std::size_t i = first; i <= last; ++i)
            if (k[i] == 'I')
                return true;
        return false;
    }

    // C03: next cells
    void check_next(
        PolState& s, const Lattice& L, const std::vector<MethodView>& mv,
        std::map<std::string, std::string>& table) {
        for (auto& m : mv) {
            for (int di : m.defs) {
                if (plan.recs[di].nonext)
                    continue; // registered without a next slot
                Res r = next_of(plan, L, m.defs, di);
                std::uintptr_t want = expected_pf(s, m, r);
                std::uintptr_t got =
                    s.ops->next_cell(m.slot, plan.recs[di].body);
                ++res.st.next_checked;
                std::string gs = word_str(s, m, got);
                if (s.decoded) {
                    // decode_dispatch_data did not write next before the
                    // repair of finding K1
                    J d = base_diag(s, L);
                    d.set("slot", m.slot);
                    d.set("def", J::arr_of(plan.recs[di].vp));
                    d.set("expected", res_str(r));
                    d.set("got", got ? gs : std::string("null"));
                    if (!got)
                        violate(
                            "C13", "decoded-next", "not-installed",
                            "after decode_dispatch_data the next slot of "
                            "definition (" + join(plan.recs[di].vp) +
                                ") of slot " + std::to_string(m.slot) +
                                " is null; after update it refers to " +
                                res_str(r),
                            d);
                    else if (got != want)
                        violate(
                            "C13", "decoded-next", "wrong",
                            "after decode_dispatch_data next of definition (" +
                                join(plan.recs[di].vp) + ") is " + gs +
                                ", expected " + res_str(r),
                            d);
                    if (stop)
                        return;
                    continue;
                }
                table["n" + std::to_string(m.slot) + ":" +
                      std::to_string(plan.recs[di].body)] = gs;
                if (got != want) {
                    J d = base_diag(s, L);
                    d.set("slot", m.slot);
                    d.set("kinds", m.si.kinds);
                    d.set("def", J::arr_of(plan.recs[di].vp));
                    d.set("expected", res_str(r));
                    d.set("got", gs);
                    d.set("ndefs", (int)m.defs.size());
                    std::string cls = r.kind == RES_DEF
                        ? (gs == "NI" || gs == "AMB" ? "error-for-definition"
                                                      : "wrong-definition")
                        : (gs[0] == 'D' ? "definition-for-error"
                                        : "wrong-error");
                    return violate(
                        "C03", "next", cls,
                        "next of definition (" + join(plan.recs[di].vp) +
                            ") of slot " + std::to_string(m.slot) + " is " +
                            gs + ", expected " + res_str(r),
                        d);
                }
            }
        }
    }

    // ---------------------------------------------------------------------
    // real calls

    struct Expect {
        Res res;
        std::vector<int> tuple;
        std::vector<int> aliases;
    };

    J call_diag(
        PolState& s, const Lattice& L, const MethodView& m,
        const std::vector<int>& tuple) {
        J d = base_diag(s, L);
        d.set("slot", m.slot);
        d.set("kinds", m.si.kinds);
        d.set("arity", m.si.arity);
        d.set("nonvirtual_between", nonvirtual_between(m.si));
        d.set("tuple", J::arr_of(tuple));
        d.set("ndefs", (int)m.defs.size());
        return d;
    }

    // verify one real call (M::fn(...) or M::fn.resolve(...)) against the
    // model's verdict
    void verify_call(
        PolState& s, const Lattice& L, const MethodView& m,
        const std::vector<int>& tuple, const std::vector<CallArg>& args,
        const Res& want, bool resolve_only, bool follow_next,
        const char* propdef) {
        auto& ops = *s.ops;
        CallOut out = ops.call(
            m.slot, args.data(), (int)args.size(), resolve_only, follow_next,
            -1);
        ++res.st.calls;
        J d = call_diag(s, L, m, tuple);
        std::vector<int> rts;
        for (auto& a : args)
            rts.push_back(a.route);
        d.set("routes", J::arr_of(rts));
        d.set("resolve_only", resolve_only);
        d.set("expected", res_str(want));
        std::string where = "slot " + std::to_string(m.slot) + " (" +
            m.si.kinds + ") tuple (" + join(tuple) + ")";
        if (out.err.alt == EA_STATIC_SLOT || out.err.alt == EA_STATIC_STRIDE) {
            // only reached when the static offsets equal the installed ones
            d.set("err_alt", out.err.alt);
            return violate(
                "C12", "accept", "correct-offsets-rejected",
                "the consistency check reported a static " +
                    std::string(out.err.alt == EA_STATIC_SLOT ? "slot"
                                                              : "stride") +
                    " error although the static offsets are the installed "
                    "ones: " + where,
                d);
        }
        if (resolve_only) {
            if (out.err.alt != EA_NONE || !out.returned) {
                d.set("err_alt", out.err.alt);
                return violate(
                    propdef, "dispatch", "resolve-raised",
                    "resolve raised an error for " + where, d);
            }
            std::string gs = word_str(s, m, out.pf);
            d.set("got", gs);
            if (out.pf != expected_pf(s, m, want)) {
                std::string cls = want.kind == RES_DEF
                    ? (gs == "NI" || gs == "AMB" ? "error-for-definition"
                                                  : "wrong-definition")
                    : (gs[0] == 'D' ? "definition-for-error" : "wrong-error");
                // a definition chosen where none is more specific than all
                // the others breaks C01's statement as much as C02's
                return violate(
                    want.kind == RES_DEF ? propdef
                        : (gs[0] == 'D' && opts.focus == "C01") ? "C01"
                                                                : "C02",
                    "dispatch", cls,
                    "resolve returns " + gs + " for " + where +
                        ", expected " + res_str(want),
                    d);
            }
            return;
        }
        if (want.kind == RES_DEF) {
            int body = plan.recs[want.def].body;
            if (out.nframes == 0) {
                d.set("err_alt", out.err.alt);
                d.set("got", out.err.alt == EA_RESOLUTION
                                 ? (out.err.status == 1 ? "NI" : "AMB")
                                 : "ERR");
                return violate(
                    propdef, "dispatch", "error-for-definition",
                    "call raised an error instead of running definition " +
                        std::to_string(body) + " for " + where,
                    d);
            }
            auto& f = out.frames[0];
            d.set("got", "D" + std::to_string(f.body));
            if (f.slot != m.slot || f.body != body)
                return violate(
                    propdef, "dispatch", "wrong-definition",
                    "call ran definition " + std::to_string(f.body) +
                        " instead of " + std::to_string(body) + " for " +
                        where,
                    d);
            // arguments as seen inside the definition
            for (int i = 0; i < out.nparams; ++i)
                if (f.echo[i] != out.expect_echo[i])
                    return violate(
                        propdef, "dispatch", "arguments-garbled",
                        "definition saw a different argument at position " +
                            std::to_string(i) + " for " + where,
                        d);
            if (!follow_next) {
                if (!out.returned || out.ret != body || out.nframes != 1 ||
                    out.err.alt != EA_NONE)
                    return violate(
                        propdef, "dispatch", "return-garbled",
                        "call did not return the definition's value for " +
                            where,
                        d);
                return;
            }
            // next, called from inside the definition
            Res nx = next_of(plan, L, m.defs, want.def);
            d.set("next_expected", res_str(nx));
            if (nx.kind == RES_DEF) {
                int nb = plan.recs[nx.def].body;
                if (out.nframes < 2 || out.frames[1].body != nb ||
                    out.frames[1].slot != m.slot || !out.returned)
                    return violate(
                        "C03", "next-call", "wrong-definition",
                        "next called from definition " +
                            std::to_string(body) + " of " + where +
                            " did not run definition " + std::to_string(nb),
                        d);
                for (int i = 0; i < out.nparams; ++i)
                    if (out.frames[1].echo[i] != out.expect_echo[i])
                        return violate(
                            "C03", "next-call", "arguments-garbled",
                            "next passed a different argument at position " +
                                std::to_string(i),
                            d);
            } else {
                int st = nx.kind == RES_NODEF ? 1 : 2;
                if (out.nframes != 1 || out.err.alt != EA_RESOLUTION ||
                    out.err.status != st)
                    return violate(
                        "C03", "next-call", "wrong-error",
                        "next called from definition " +
                            std::to_string(body) + " of " + where +
                            " did not raise the expected resolution error",
                        d);
            }
            return;
        }
        // an error is expected
        ++res.st.error_calls;
        int st = want.kind == RES_NODEF ? 1 : 2;
        if (out.nframes != 0) {
            d.set("got", "D" + std::to_string(out.frames[0].body));
            return violate(
                opts.focus == "C01" ? "C01" : "C02", "error", "definition-for-error",
                "definition " + std::to_string(out.frames[0].body) +
                    " ran for " + where + " although the call is " +
                    res_str(want),
                d);
        }
        if (out.returned)
            return violate(
                "C02", "error", "returned",
                "erroring call returned normally for " + where, d);
        d.set("err_alt", out.err.alt);
        if (out.err.alt != EA_RESOLUTION)
            return violate(
                "C02", "error", "wrong-error-type",
                "expected a resolution error for " + where, d);
        if (out.err.handler_calls != 1)
            return violate(
                "C02", "error", "handler-count",
                "handler called " + std::to_string(out.err.handler_calls) +
                    " times for " + where,
                d);
        if (out.err.handler_uid >= 0 && out.err.handler_uid != ops.uid) {
            // "the policy's error handler receives a resolution error";
            // "error handlers belong to one policy"
            d.set("handler_of", all_policies()[out.err.handler_uid]->name);
            return violate(
                opts.focus == "C14" ? "C14" : "C02", "error",
                "foreign-handler",
                "the error of a call of policy " + s.name +
                    " was delivered to the handler installed for policy " +
                    all_policies()[out.err.handler_uid]->name + ": " + where,
                d);
        }
        if (out.err.status != st)
            return violate(
                "C02", "error", "wrong-status",
                "status " + std::to_string(out.err.status) + " for " + where +
                    ", expected " + res_str(want),
                d);
        if ((int)out.err.arity != m.si.arity) {
            d.set("reported_arity", J((unsigned long long)out.err.arity));
            return violate(
                "C02", "error", "wrong-arity",
                "resolution error reports arity " +
                    std::to_string(out.err.arity) + " for " + where,
                d);
        }
        for (int i = 0; i < m.si.arity; ++i) {
            tid wid = ops.class_id(args[i].cls, args[i].alias);
            if (out.err.types[i] != wid) {
                d.set("position", i);
                return violate(
                    "C02", "error", "wrong-type-ids",
                    "resolution error does not carry the dynamic type of "
                    "virtual argument " +
                        std::to_string(i) + " for " + where,
                    d);
            }
        }
    }

    static bool is_vp_kind(char k) {
        return k == 'Q' || k == 'C' || k == 'W';
    }

    // pick a route allowed by the mask for a parameter kind
    int pick_route(Rng& r, char kind, int mask, int alias) {
        if (!is_vp_kind(kind))
            return RT_REF;
        std::vector<int> ok;
        int maxr = kind == 'W' ? 8 : RT_COUNT;
        for (int i = 0; i < maxr; ++i) {
            if (!((mask >> i) & 1))
                continue;
            // exact / final / move / make_virtual_shared name the static
            // type: only for objects that carry the class's primary id
            if ((i == RT_FINAL || i == 7) && alias != 0)
                continue;
            ok.push_back(i);
        }
        if (ok.empty())
            return RT_REF;
        return ok[r.below(ok.size())];
    }

    void do_check(const Event& e) {
        if (e.pol < 0 || e.pol >= (int)ps.size())
            return invalid("check: bad policy");
        auto& s = ps[e.pol];
        if (!s.clean || s.aborted || s.live != s.updated)
            return invalid("check: policy not clean");
        if (s.handler_mode != HM_THROW && s.handler_mode != HM_CALL_ERROR)
            return invalid("check: handler must throw");
        ++res.st.checks;
        auto& ops = *s.ops;
        Lattice L = make_lattice(plan, s.updated);
        Snap sn = ops.snap();
        auto mv = method_views(s, s.updated);
        auto& table = res.tables[s.name];
        table.clear();
        struct Ctx {
            Exec& x;
            ~Ctx() {
                x.derived_prop.clear();
                x.derived_tag.clear();
            }
        } ctx{*this};
        if (s.decoded) {
            derived_prop = "C13";
            derived_tag = "decoded";
        } else if (ops.caps.static_offsets && plan.prop != "C13") {
            // (in a C13 plan the state before decoding is the baseline)
            derived_prop = "C12";
            derived_tag = "static";
            for (auto& m : mv)
                if (m.offsets_differ && !ops.caps.checked)
                    return invalid(
                        "check: static offsets differ from the installed ones "
                        "under an unchecked policy");
        }

        check_structure(s, L, sn, mv);
        if (stop)
            return;
        check_lookup(s, L, sn);
        if (stop)
            return;
        check_next(s, L, mv, table);
        if (stop)
            return;

        std::uint64_t tuples_here = 0;
        for (auto& m : mv) {
            if (m.offsets_differ) {
                check_rejected(s, L, m, e);
                if (stop)
                    return;
                continue;
            }
            // sampling depends on the method only, not on catalog order
            Rng rng(mix3(e.sample_seed, 0xC4EC, (std::uint64_t)m.slot));
            // aliases and routes draw from their own stream, so that the
            // sampled tuples are the same under every flavour
            Rng arng(mix3(e.sample_seed, 0xA11A5, (std::uint64_t)m.slot));
            auto& mr = plan.recs[m.rec];
            int k = m.si.arity;
            // legal argument classes per virtual position
            std::vector<std::vector<int>> cand(k);
            std::uint64_t total = 1;
            for (int i = 0; i < k; ++i) {
                for (int c = 0; c < L.n; ++c)
                    if (L.reg[c] && (!L.abstract[c] || plan.abstract_args) &&
                        L.le(c, mr.vp[i]))
                        cand[i].push_back(c);
                total *= cand[i].size();
                if (total > 100000000ULL)
                    total = 100000000ULL;
            }
            if (total == 0)
                continue;
            std::uint64_t n =
                std::min<std::uint64_t>(total, (std::uint64_t)e.max_tuples);
            bool all = total <= (std::uint64_t)e.max_tuples;
            std::vector<int> idx(k, 0);
            std::set<int> next_done;
            std::string kinds = m.si.kinds;
            res.st.reach["tuples:" + kinds] += n;
            for (std::uint64_t t = 0; t < n && !stop; ++t) {
                std::vector<int> tuple(k);
                if (all) {
                    for (int i = 0; i < k; ++i)
                        tuple[i] = cand[i][idx[i]];
                    for (int i = 0; i < k; ++i) {
                        if (++idx[i] < (int)cand[i].size())
                            break;
                        idx[i] = 0;
                    }
                } else {
                    for (int i = 0; i < k; ++i)
                        tuple[i] = cand[i][rng.below(cand[i].size())];
                }
                ++res.st.tuples;
                ++tuples_here;
                [&]() {
                Res want = dispatch(plan, L, m.defs, tuple);
                if (n_applicable(plan, L, m.defs, tuple) >= 2)
                    ++res.st.multi_applicable;
                // pre-flight: the documented walk over the installed data
                Walk wk = walk(sn, m.si, tuple);
                std::string key = "s" + std::to_string(m.slot) + ":" + join(tuple);
                if (!wk.ok) {
                    table[key] = "BAD";
                    J d = call_diag(s, L, m, tuple);
                    d.set("why", wk.why);
                    return violate(
                        "C04", "walk", "out-of-bounds",
                        "legal call slot " + std::to_string(m.slot) +
                            " tuple (" + join(tuple) + ") would read: " +
                            wk.why,
                        d);
                }
                std::string gs = word_str(s, m, wk.word);
                table[key] = gs;
                if (gs == "BAD") {
                    J d = call_diag(s, L, m, tuple);
                    return violate(
                        "C04", "walk", "foreign-word",
                        "dispatch cell for slot " + std::to_string(m.slot) +
                            " tuple (" + join(tuple) +
                            ") holds neither a definition of the method nor "
                            "one of its error handlers",
                        d);
                }
                if (wk.word != expected_pf(s, m, want)) {
                    J d = call_diag(s, L, m, tuple);
                    d.set("expected", res_str(want));
                    d.set("got", gs);
                    d.set("route", "table");
                    std::string cls = want.kind == RES_DEF
                        ? (gs == "NI" || gs == "AMB" ? "error-for-definition"
                                                      : "wrong-definition")
                        : (gs[0] == 'D' ? "definition-for-error"
                                        : "wrong-error");
                    return violate(
                        want.kind == RES_DEF ? "C01"
                            : (gs[0] == 'D' && opts.focus == "C01") ? "C01"
                                                                    : "C02",
                        "dispatch", cls,
                        "table says " + gs + " for slot " +
                            std::to_string(m.slot) + " (" + kinds +
                            ") tuple (" + join(tuple) + "), expected " +
                            res_str(want),
                        d);
                }
                // the real thing, through the registered ids
                std::vector<CallArg> args(k);
                int vi = 0;
                for (char kc : kinds) {
                    if (kc == 'I')
                        continue;
                    std::uint32_t am = ops.caps.stdrtti
                        ? 1u
                        : registered_aliases(s.updated, tuple[vi]);
                    std::vector<int> al;
                    for (int a = 0; a < MAXALIAS; ++a)
                        if ((am >> a) & 1u)
                            al.push_back(a);
                    args[vi].cls = tuple[vi];
                    args[vi].alias = al[arng.below(al.size())];
                    args[vi].route =
                        pick_route(arng, kc, e.routes, args[vi].alias);
                    ++vi;
                }
                verify_call(s, L, m, tuple, args, want, false, false, "C01");
                if (stop)
                    return;
                verify_call(s, L, m, tuple, args, want, true, false, "C01");
                if (stop)
                    return;
                if (e.call_next && want.kind == RES_DEF &&
                    !plan.recs[want.def].nonext &&
                    next_done.insert(want.def).second) {
                    verify_call(s, L, m, tuple, args, want, false, true, "C01");
                    if (stop)
                        return;
                }
                }();
            }
            if (stop)
                return;
        }
        // report flags are part of the observable outcome
        log("check " + s.name + " tuples=" + std::to_string(tuples_here));
        Hash th;
        for (auto& kv : table) {
            th.str(kv.first);
            th.str(kv.second);
        }
        log("table " + std::to_string(th.h));
        if (s.decoded && s.enc_table_valid) {
            // C13: "makes every call behave exactly as after update"
            std::string what;
            if (first_diff_tables(s.enc_table, table, what)) {
                J d = base_diag(s, L);
                d.set("what", what);
                derived_prop.clear();
                violate(
                    "C13", "decode-diff", "outcome-differs",
                    "after decode_dispatch_data a call resolves differently "
                    "than after the update that was encoded: " + what,
                    d);
            }
        } else if (!s.decoded && s.enc_epoch == s.epoch && !s.encoded.empty()) {
            s.enc_table = table;
            s.enc_table_valid = true;
        }
        note_own_event(s);
    }

    static bool first_diff_tables(
        const std::map<std::string, std::string>& a,
        const std::map<std::string, std::string>& b, std::string& what) {
        for (auto& kv : a) {
            if (kv.first[0] == 'n')
                continue; // next cells: decoded-next oracle
            auto it = b.find(kv.first);
            if (it == b.end()) {
                what = kv.first + ": " + kv.second + " vs (absent)";
                return true;
            }
            if (it->second != kv.second) {
                what = kv.first + ": " + kv.second + " vs " + it->second;
                return true;
            }
        }
        return false;
    }

    // C12: "the debug-build consistency check ... rejects any other": every
    // call of a method whose static offsets differ from the installed ones is
    // reported (slot or stride error) before any definition runs
    void check_rejected(
        PolState& s, const Lattice& L, const MethodView& m, const Event& e) {
        auto& ops = *s.ops;
        auto& mr = plan.recs[m.rec];
        int k = m.si.arity;
        Rng rng(mix3(e.sample_seed, 0x0FF5, (std::uint64_t)m.slot));
        std::vector<std::vector<int>> cand(k);
        for (int i = 0; i < k; ++i) {
            for (int c = 0; c < L.n; ++c)
                if (L.reg[c] && (!L.abstract[c] || plan.abstract_args) &&
                    L.le(c, mr.vp[i]))
                    cand[i].push_back(c);
            if (cand[i].empty())
                return;
        }
        std::string kinds = m.si.kinds;
        for (int t = 0; t < 6 && !stop; ++t) {
            std::vector<int> tuple(k);
            std::vector<CallArg> args(k);
            int vi = 0;
            for (char kc : kinds) {
                if (kc == 'I')
                    continue;
                tuple[vi] = cand[vi][rng.below(cand[vi].size())];
                args[vi].cls = tuple[vi];
                args[vi].alias = 0;
                args[vi].route = pick_route(rng, kc, e.routes, 0);
                ++vi;
            }
            bool resolve_only = (t % 3) == 2;
            CallOut out = ops.call(
                m.slot, args.data(), (int)args.size(), resolve_only, false, -1);
            ++res.st.calls;
            ++res.st.rejects_checked;
            ++res.st.faults["static_offsets_differ_call"];
            J d = call_diag(s, L, m, tuple);
            d.set("err_alt", out.err.alt);
            d.set("handler_calls", out.err.handler_calls);
            d.set("resolve_only", resolve_only);
            std::string where = "slot " + std::to_string(m.slot) + " (" +
                kinds + ") tuple (" + join(tuple) + ")";
            if (out.nframes != 0)
                return violate(
                    "C12", "reject", "definition-ran",
                    "static offsets differ from the installed ones, yet a "
                    "definition ran: " + where, d);
            if (out.returned ||
                (out.err.alt != EA_STATIC_SLOT &&
                 out.err.alt != EA_STATIC_STRIDE))
                return violate(
                    "C12", "reject", "not-rejected",
                    "static offsets differ from the installed ones and the "
                    "checked policy did not report it: " + where, d);
            if (out.err.handler_calls != 1)
                return violate(
                    "C12", "reject", "handler-count",
                    "static offset error reported " +
                        std::to_string(out.err.handler_calls) + " times: " +
                        where, d);
        }
        log("rejected slot " + std::to_string(m.slot));
    }

    // ---------------------------------------------------------------------
    // generated text through a real compiler (syntax only): the parsers of
    // emitted.hpp stand for the compiler in every run; in a sample of runs
    // what they accept is also given to g++ or clang++

    // 0: accepted, 1: rejected (first diagnostic in err), -1: no compiler
    static int compile_text(const std::string& src, int which, std::string& err) {
        char path[] = "/tmp/yosim-gen-XXXXXX.cpp";
        int fd = mkstemps(path, 4);
        if (fd < 0)
            return -1;
        ssize_t w = write(fd, src.data(), src.size());
        (void)w;
        close(fd);
        int pfd[2];
        if (pipe(pfd) != 0) {
            unlink(path);
            return -1;
        }
        fflush(stdout);
        fflush(stderr);
        pid_t pid = fork();
        if (pid == 0) {
            dup2(pfd[1], 2);
            dup2(pfd[1], 1);
            close(pfd[0]);
            signal(SIGPROF, SIG_DFL);
            struct itimerval off = {};
            setitimer(ITIMER_PROF, &off, nullptr);
            const char* cc = which == 2 ? "clang++" : "g++";
            execlp(cc, cc, "-std=c++17", "-fsyntax-only", "-w", path, (char*)nullptr);
            _exit(127);
        }
        close(pfd[1]);
        std::string out;
        char buf[1024];
        ssize_t n;
        while ((n = read(pfd[0], buf, sizeof buf)) > 0)
            if (out.size() < 4000)
                out.append(buf, (std::size_t)n);
        close(pfd[0]);
        int st = 0;
        waitpid(pid, &st, 0);
        unlink(path);
        if (!WIFEXITED(st) || WEXITSTATUS(st) == 127)
            return -1;
        if (WEXITSTATUS(st) == 0)
            return 0;
        std::size_t p = out.find("error");
        err = p == std::string::npos ? out.substr(0, 300)
                                     : out.substr(p, 300);
        return 1;
    }

    // ---------------------------------------------------------------------
    // C12: the generator's output "compiled in"

    void do_offsets(const Event& e) {
        if (e.pol < 0 || e.pol >= (int)ps.size())
            return invalid("offsets: bad policy");
        auto& s = ps[e.pol];
        auto& ops = *s.ops;
        if (!ops.caps.static_offsets)
            return invalid("offsets: policy without static offsets");
        if (!s.clean || s.aborted || s.live != s.updated)
            return invalid("offsets: policy not clean");
        Lattice L = make_lattice(plan, s.updated);
        if (!e.stale) {
            auto mv = method_views(s, s.updated);
            std::map<int, const MethodView*> by_slot;
            for (auto& m : mv)
                by_slot[m.slot] = &m;
            std::vector<std::string> texts;
            if (e.per_method)
                for (auto& m : mv)
                    texts.push_back(ops.gen_offsets(m.slot, e.fresh_gen != 0));
            else
                texts.push_back(ops.gen_offsets(-1, e.fresh_gen != 0));
            std::set<int> seen;
            for (auto& text : texts) {
                std::vector<EmittedOffsets> eo;
                std::string why = parse_offsets(text, eo);
                J d = base_diag(s, L);
                if (!why.empty()) {
                    d.set("why", why);
                    d.set("text", text.substr(0, 400));
                    return violate(
                        "C12", "offsets-text", "malformed",
                        "write_static_offsets wrote text that is not a "
                        "static_offsets specialisation: " + why, d);
                }
                if (e.per_method && eo.size() != 1) {
                    d.set("count", (int)eo.size());
                    return violate(
                        "C12", "offsets-text", "count",
                        "write_static_offsets<Method> wrote " +
                            std::to_string(eo.size()) + " specialisations", d);
                }
                for (auto& o : eo) {
                    // which method: ...method<ys::key<N>, ..., ys::pol::P>
                    std::size_t kp = o.method.find("ys::key<");
                    int slot = kp == std::string::npos
                        ? -1 : atoi(o.method.c_str() + kp + 8);
                    std::string tail = "ys::pol::" + s.name + ">";
                    bool named = o.method.size() >= tail.size() &&
                        o.method.compare(o.method.size() - tail.size(),
                                         tail.size(), tail) == 0;
                    d.set("method", o.method);
                    if (!by_slot.count(slot) || !named ||
                        !seen.insert(slot).second)
                        return violate(
                            "C12", "offsets-text", "wrong-method",
                            "write_static_offsets names a method that is not "
                            "a registered method of the policy, or names one "
                            "twice: " + o.method, d);
                    auto& m = *by_slot[slot];
                    int k = m.si.arity;
                    d.set("slot", slot);
                    d.set("kinds", m.si.kinds);
                    d.set("arity", k);
                    std::vector<int> gs(o.slots.begin(), o.slots.end()),
                        gt(o.strides.begin(), o.strides.end()), is, it;
                    for (int i = 0; i < k; ++i)
                        is.push_back((int)m.installed[i]);
                    for (int i = 1; i < k; ++i)
                        it.push_back((int)m.installed[k + i - 1]);
                    d.set("generated_slots", J::arr_of(gs));
                    d.set("generated_strides", J::arr_of(gt));
                    d.set("installed_slots", J::arr_of(is));
                    d.set("installed_strides", J::arr_of(it));
                    if (gs != is || gt != it)
                        return violate(
                            "C12", "offsets-text", "differ-from-installed",
                            "generated offsets of slot " +
                                std::to_string(slot) + " (" + m.si.kinds +
                                "): slots {" + join(gs) + "} strides {" +
                                join(gt) + "}; update installed slots {" +
                                join(is) + "} strides {" + join(it) + "}",
                            d);
                    ops.set_offsets(slot, o.slots, o.strides);
                }
            }
            if (e.compile) {
                // declarations a program has in scope where it includes the
                // generated header (the library's own are forward-declared)
                std::string src =
                    "#include <cstddef>\n#include <memory>\n"
                    "namespace yorel { namespace yomm2 {\n"
                    "template<class...> struct method;\n"
                    "template<class> struct virtual_;\n"
                    "template<class...> class virtual_ptr;\n"
                    "namespace detail { template<class> struct static_offsets; }\n"
                    "} }\n"
                    "namespace ys { template<int> struct key; struct Obj;\n"
                    "namespace pol { struct sofd; struct sofr; } }\n";
                for (auto& text : texts)
                    src += text;
                std::string err;
                int rc = compile_text(src, e.compile, err);
                if (rc < 0)
                    ++res.st.faults["compiler_unavailable"];
                else
                    ++res.st.faults[e.compile == 2 ? "offsets_text_compiled_clang"
                                                   : "offsets_text_compiled_gcc"];
                if (rc == 1) {
                    J d = base_diag(s, L);
                    d.set("compiler", e.compile == 2 ? "clang++" : "g++");
                    d.set("diagnostic", err);
                    return violate(
                        "C12", "offsets-text", "rejected-by-compiler",
                        "the compiler rejects the generated static offsets: " +
                            err.substr(0, 160), d);
                }
            }
            if (seen.size() != mv.size()) {
                J d = base_diag(s, L);
                return violate(
                    "C12", "offsets-text", "missing-method",
                    "write_static_offsets wrote offsets for " +
                        std::to_string(seen.size()) + " of " +
                        std::to_string(mv.size()) + " methods", d);
            }
            ++res.st.faults[e.per_method ? "offsets_generated_per_method"
                                         : "offsets_generated_per_policy"];
        } else {
            ++res.st.faults["offsets_stale_header"];
        }
        if (e.meth >= 0) {
            // fault: the header was generated from other registrations
            if (e.meth >= (int)plan.recs.size() ||
                plan.recs[e.meth].kind != RK_METHOD ||
                plan.recs[e.meth].pol != e.pol || !s.updated.has_method(e.meth))
                return invalid("offsets: bad method to perturb");
            if (!ops.caps.checked)
                return invalid("offsets: perturbation under an unchecked policy");
            SlotInfo si;
            ops.slot_info(plan.recs[e.meth].slot, si);
            int k = si.arity;
            int n = 2 * k - 1;
            int pos = ((e.ppos % n) + n) % n;
            if (e.pdelta == 0)
                return invalid("offsets: null perturbation");
            std::vector<std::size_t> sl(si.st_slots, si.st_slots + k),
                st(si.st_strides, si.st_strides + (k - 1));
            if (pos < k)
                sl[pos] = (std::size_t)((long long)sl[pos] + e.pdelta);
            else
                st[pos - k] = (std::size_t)((long long)st[pos - k] + e.pdelta);
            ops.set_offsets(plan.recs[e.meth].slot, sl, st);
            ++res.st.faults["offsets_perturbed"];
        }
        log("offsets " + s.name + " stale=" + std::to_string(e.stale) +
            " meth=" + std::to_string(e.meth));
        note_own_event(s);
    }

    // ---------------------------------------------------------------------
    // C13: the process ends, another one starts; decode

    void do_restart(const Event& e) {
        if (e.pol < 0 || e.pol >= (int)ps.size())
            return invalid("restart: bad policy");
        auto& s = ps[e.pol];
        // static offsets are compiled into the program: the new process has
        // the ones the old one had
        std::vector<std::pair<int, SlotInfo>> compiled_in;
        if (s.ops->caps.static_offsets)
            for (int sl = 0; sl < s.ops->nslots; ++sl) {
                SlotInfo si;
                s.ops->slot_info(sl, si);
                compiled_in.push_back({sl, si});
            }
        s.ops->reset();
        for (auto& kv : compiled_in) {
            auto& si = kv.second;
            s.ops->set_offsets(
                kv.first,
                std::vector<std::size_t>(si.st_slots, si.st_slots + 8),
                std::vector<std::size_t>(si.st_strides, si.st_strides + 8));
        }
        std::string why = s.ops->pristine();
        if (!why.empty()) {
            res.poisoned = true;
            J d = J::obj();
            d.set("policy", s.name);
            d.set("what", why);
            violate(
                "C18", "catalog", "residue",
                "after every registration object of policy " + s.name +
                    " was destroyed: " + why, d);
            stop = true;
            return;
        }
        for (std::size_t ri = 0; ri < plan.recs.size(); ++ri)
            if (plan.recs[ri].pol == e.pol)
                loaded[ri] = 0;
        s.live = Registry();
        s.updated = Registry();
        s.clean = false;
        s.aborted = false;
        s.decoded = false;
        s.fresh_process = true;
        for (auto& h : s.held)
            h = HeldVp();
        s.ops->set_handler(HM_THROW);
        s.handler_mode = HM_THROW;
        ++s.epoch;
        log("restart " + s.name);
        note_own_event(s);
    }

    void do_decode(const Event& e) {
        if (e.pol < 0 || e.pol >= (int)ps.size())
            return invalid("decode: bad policy");
        auto& s = ps[e.pol];
        auto& ops = *s.ops;
        if (s.encoded.empty())
            return invalid("decode: nothing was encoded");
        if (!s.fresh_process)
            return invalid("decode: not a process that never updated");
        if (s.live != s.enc_reg)
            return invalid("decode: not the registrations that were encoded");
        if (s.handler_mode != HM_THROW)
            return invalid("decode: handler must throw");
        if (!ops.caps.hash && e.hash_budget)
            return invalid("decode: hash fault on a policy without hash");
        if (!ids_unique())
            return invalid("decode: ids not unique");
        Lattice L = make_lattice(plan, s.live);
        s.fresh_process = false;
        DecodeOut out = ops.decode(s.encoded, e);
        J d = base_diag(s, L);
        d.set("headroom", J((unsigned long long)out.headroom));
        d.set("slots", J((unsigned long long)out.nslots));
        d.set("encoded_vtbls", J((unsigned long long)out.nvtbls));
        d.set("decoded_vtbls", J((unsigned long long)out.ndecoded));
        d.set("dtbls", J((unsigned long long)out.ndtbls));
        std::ostringstream ls;
        ls << "decode " << s.name << " parsed=" << out.parsed
           << " completed=" << out.completed << " err=" << out.err.alt;
        log(ls.str());
        if (!out.parsed) {
            d.set("why", out.parse_why);
            return violate(
                "C13", "emitted-text", "malformed",
                "encode_dispatch_data wrote text that is not the documented "
                "data structure: " + out.parse_why, d);
        }
        if (!out.completed) {
            s.aborted = true;
            s.clean = false;
            if (out.err.alt == EA_HASH_SEARCH && ops.caps.hash) {
                ++res.st.hash_failures;
                if (e.hash_budget) {
                    ++res.st.faults["hash_budget_exhausted_in_decode"];
                    note_own_event(s);
                    return;
                }
                // the update that was encoded found hash factors for the
                // same ids with the same (shipped) seed and budget
                d.set("attempts", J((unsigned long long)out.err.attempts));
                return violate(
                    "C13", "decode", "hash-search-failed",
                    "decode_dispatch_data reported a hash search error for "
                    "the ids the encoded update had hashed", d);
            }
            d.set("err_alt", out.err.alt);
            return violate(
                "C13", "decode", "failed",
                "decode_dispatch_data raised error alternative " +
                    std::to_string(out.err.alt), d);
        }
        ++res.st.faults["decoded"];
        s.updated = s.live;
        s.clean = true;
        s.aborted = false;
        s.decoded = true;
        ++s.epoch;
        note_own_event(s);
    }

    // ---------------------------------------------------------------------
    // update

    void signature_of(PolState& s, const Lattice& L) {
        sig.str(s.name);
        for (int c = 0; c < L.n; ++c)
            if (L.reg[c]) {
                sig.u64(L.anc[c]);
                sig.u64(L.abstract[c]);
            }
        for (int mi : s.updated.methods) {
            sig.u64((std::uint64_t)plan.recs[mi].slot);
            for (int c : plan.recs[mi].vp)
                sig.u64((std::uint64_t)c);
            auto it = s.updated.defs.find(mi);
            if (it != s.updated.defs.end())
                for (int di : it->second)
                    for (int c : plan.recs[di].vp)
                        sig.u64((std::uint64_t)c + 100);
        }
    }

    void do_update(const Event& e0) {
        if (e0.pol < 0 || e0.pol >= (int)ps.size())
            return invalid("update: bad policy");
        Event relative;
        if (e0.alloc_fail_from_end >= 0) {
            // late abort: count the allocations of a fault-free update, then
            // make the same update fail close to its end
            Event counting = e0;
            counting.alloc_fail_from_end = -1;
            counting.alloc_fail_at = -1;
            counting.hash_budget = 0;
            counting.fork = 0;
            do_update(counting);
            if (stop || !ps[e0.pol].clean)
                return;
            relative = e0;
            relative.alloc_fail_from_end = -1;
            relative.alloc_fail_at = std::max<long long>(
                0, (long long)ps[e0.pol].last_allocs - 1 - e0.alloc_fail_from_end);
        }
        const Event& e = e0.alloc_fail_from_end >= 0 ? relative : e0;
        auto& s = ps[e.pol];
        auto& ops = *s.ops;
        if (!ids_unique())
            return invalid("update: ids not unique");
        if (s.handler_mode != HM_THROW && s.handler_mode != HM_CALL_ERROR)
            return invalid("update: handler must throw");
        Lattice L = make_lattice(plan, s.live);
        WfResult wf = well_formed(plan, s.live, L);
        if (wf.status == WF_INVALID)
            return invalid("update: " + wf.why);
        if (wf.status == WF_MISSING && !plan.allow_missing)
            return invalid("update: unregistered class referenced");
        if (wf.status == WF_OK && !defs_covariant(plan, s.live, L))
            return invalid("update: definition not covariant with method");
        if (ops.caps.small_ids) {
            for (int c = 0; c < w.ncls; ++c)
                for (tid id : w.ids[c])
                    if (id > 4096)
                        return invalid("update: ids too large for this policy");
        }
        if (!ops.caps.hash && e.hash_budget)
            return invalid("update: hash fault on a policy without hash");
        if (ops.caps.stdrtti || ops.caps.deferred) {
            // one id per class under these flavours
        }
        if (e.trace && !ops.caps.trace)
            return invalid("update: trace on a policy without trace");
        if (s.handler_mode == HM_CALL_ERROR &&
            (e.hash_budget || wf.status == WF_MISSING))
            // the shipped error handler is installed (only call_error is
            // ours): it returns from a hash or unknown-class report and the
            // library then aborts, by design
            return invalid("update: fault with the shipped error handler");
        if (e.fork) {
            // abort probe: the handler returns; update must abort, after one
            // report naming a missing class, without installing anything
            if (wf.status != WF_MISSING || ops.caps.throws ||
                e.mode != HM_RETURNS)
                return invalid("update: fork probe needs a lost registration");
            ForkOut fo = in_fork(s, HM_RETURNS, [&] { ops.update(e); });
            ++res.st.faults["handler_returns"];
            ++res.st.faults["lost_registration_update"];
            std::ostringstream ls;
            ls << "probe update " << s.name << " sig=" << fo.sig
               << " handler=" << fo.handler_lines;
            log(ls.str());
            J d = base_diag(s, L);
            d.set("signal", fo.sig);
            d.set("handler_lines", fo.handler_lines);
            if (!fo.signaled || fo.sig != SIGABRT || fo.returned)
                return violate(
                    "C15", "abort-probe", "no-abort",
                    "handler returned from an unknown class report and "
                    "update did not abort",
                    d);
            bool match = false;
            for (int c : wf.missing)
                for (int a = 0; a < (int)w.ids[c].size(); ++a)
                    if (fo.h_type == ops.class_id(c, a))
                        match = true;
            if (fo.handler_lines != 1 || fo.h_alt != EA_UNKNOWN_CLASS || !match)
                return violate(
                    "C15", "abort-probe", "wrong-report",
                    "update did not report the missing class exactly once "
                    "before aborting",
                    d);
            return;
        }
        ++res.st.updates;
        if (e.encode && !ops.caps.stdrtti)
            return invalid("update: the generator needs std_rtti");
        s.fresh_process = false;
        std::uint64_t attempts_before = g.probes[PROBE_HASH_ATTEMPT];
        UpdateOut uo = ops.update(e);
        std::uint64_t attempts = g.probes[PROBE_HASH_ATTEMPT] -
            attempts_before;
        std::ostringstream ls;
        ls << "update " << s.name << " completed=" << uo.completed
           << " err=" << uo.err.alt;
        if (wf.status == WF_MISSING) {
            // fault "lost registration": must be diagnosed, not installed
            ++res.st.faults["lost_registration_update"];
            s.aborted = true;
            s.clean = false;
            J d = base_diag(s, L);
            std::vector<int> miss(wf.missing.begin(), wf.missing.end());
            d.set("missing", J::arr_of(miss));
            log(ls.str());
            if (uo.completed)
                return violate(
                    "C15", "update", "not-diagnosed",
                    "update completed although class " + join(miss) +
                        " is referenced but not registered",
                    d);
            if (uo.err.alt != EA_UNKNOWN_CLASS)
                return violate(
                    "C15", "update", "wrong-error",
                    "update did not report an unknown class", d);
            bool match = false;
            for (int c : wf.missing)
                for (int a = 0; a < (int)w.ids[c].size(); ++a)
                    if (uo.err.type == ops.class_id(c, a))
                        match = true;
            if (!match)
                return violate(
                    "C15", "update", "wrong-type-id",
                    "unknown class error does not carry the id of a missing "
                    "class",
                    d);
            if (uo.err.handler_calls != 1)
                return violate(
                    "C15", "update", "handler-count",
                    "handler called " +
                        std::to_string(uo.err.handler_calls) + " times",
                    d);
            ++res.st.unknown_class_reports;
            ++res.st.updates_aborted;
            note_own_event(s);
            return;
        }
        if (!uo.completed) {
            ++res.st.updates_aborted;
            s.aborted = true;
            s.clean = false;
            ls << " attempts=" << uo.err.attempts;
            log(ls.str());
            J d = base_diag(s, L);
            d.set("err_alt", uo.err.alt);
            if (uo.err.alt == EA_BAD_ALLOC && e.alloc_fail_at >= 0) {
                ++res.st.alloc_failures;
                ++res.st.faults[e0.alloc_fail_from_end >= 0
                                    ? "alloc_failure_late"
                                    : "alloc_failure"];
            } else if (uo.err.alt == EA_HASH_SEARCH && ops.caps.hash) {
                ++res.st.hash_failures;
                if (e.hash_budget)
                    ++res.st.faults["hash_budget_exhausted"];
                else
                    ++res.st.inconclusive;
                if (uo.err.handler_calls != 1)
                    return violate(
                        "C05", "hash-search", "handler-count",
                        "hash search failure reported " +
                            std::to_string(uo.err.handler_calls) + " times",
                        d);
                if (uo.err.attempts != attempts) {
                    d.set("reported", J((unsigned long long)uo.err.attempts));
                    d.set("made", J((unsigned long long)attempts));
                    return violate(
                        "C05", "hash-search", "attempts",
                        "hash_search_error reports " +
                            std::to_string(uo.err.attempts) +
                            " attempts, " + std::to_string(attempts) +
                            " were made",
                        d);
                }
            } else {
                // in a flavour differential a flavour that cannot update at
                // all is the largest difference there is
                return violate(
                    plan.diff == "flavours" && !plan.prop.empty() ? plan.prop
                                                                  : "C07",
                    "update", "failed",
                    "update of a well-formed registry failed with error "
                    "alternative " +
                        std::to_string(uo.err.alt),
                    d);
            }
            note_own_event(s);
            return;
        }
        ++res.st.updates_completed;
        ++res.st.reach["updates:" + ops.name];
        s.last_allocs = uo.allocs;
        log(ls.str());
        for (auto& h : s.held)
            if (h.live && ops.caps.indirect)
                ++res.st.vp_survived_update;
        s.updated = s.live;
        s.clean = true;
        s.aborted = false;
        s.decoded = false;
        ++s.epoch;
        if (e.encode) {
            s.encoded = uo.encoded;
            s.enc_reg = s.live;
            s.enc_epoch = s.epoch;
            s.enc_table_valid = false;
            ++res.st.faults["encoded"];
            if (e.compile) {
                // "source text that the supported compilers accept": suitable
                // for inclusion in a function body, with the library's decoder
                // and the policy visible
                std::string src =
                    "#include <cstddef>\n#include <cstdint>\n"
                    "namespace yorel { namespace yomm2 {\n"
                    "template<class P, class D> void decode_dispatch_data(D&) {}\n"
                    "} }\n"
                    "struct " + s.name + " {};\n"
                    "void generated() {\n" + s.encoded + "\n}\n";
                std::string err;
                int rc = compile_text(src, e.compile, err);
                if (rc < 0)
                    ++res.st.faults["compiler_unavailable"];
                else
                    ++res.st.faults[e.compile == 2 ? "encoded_text_compiled_clang"
                                                   : "encoded_text_compiled_gcc"];
                if (rc == 1) {
                    Lattice LE = make_lattice(plan, s.updated);
                    J d = base_diag(s, LE);
                    d.set("compiler", e.compile == 2 ? "clang++" : "g++");
                    d.set("diagnostic", err);
                    violate(
                        "C13", "emitted-text", "rejected-by-compiler",
                        "the compiler rejects the emitted dispatch data: " +
                            err.substr(0, 160), d);
                    if (stop)
                        return;
                }
            }
        }
        {
            Lattice LU = make_lattice(plan, s.updated);
            signature_of(s, LU);
            int mi = 0;
            J bd = base_diag(s, LU);
            if (bd.getb("multiple_inheritance", false))
                ++mi;
            res.st.mi_classes += mi;
            check_report(s, LU, uo);
        }
        note_own_event(s);
        if (opts.watch_isolation && !stop)
            check_isolation(e.pol);
    }

    // ---------------------------------------------------------------------
    // handler / call / virtual_ptr events

    void do_handler(const Event& e) {
        if (e.pol < 0 || e.pol >= (int)ps.size())
            return invalid("handler: bad policy");
        auto& s = ps[e.pol];
        if (e.mode == HM_CALL_ERROR && !s.ops->caps.compat)
            return invalid("handler: policy has no call_error");
        if (e.mode != HM_THROW && e.mode != HM_CALL_ERROR)
            return invalid("handler: mode only valid under fork");
        if (s.ops->caps.throws && e.mode != HM_THROW)
            return invalid("handler: throwing policy");
        s.ops->set_handler(e.mode);
        s.handler_mode = e.mode;
        log("handler " + s.name + " " + std::to_string(e.mode));
        note_own_event(s);
        if (opts.watch_isolation)
            check_isolation(e.pol);
    }

    bool legal_arg(PolState& s, const Lattice& L, int c, int alias, int pc) {
        if (c < 0 || c >= L.n || !L.reg[c] ||
            (L.abstract[c] && !plan.abstract_args) || !L.le(c, pc))
            return false;
        if (s.ops->caps.stdrtti)
            return alias == 0;
        return (registered_aliases(s.updated, c) >> alias) & 1u;
    }

    struct ForkOut {
        bool signaled = false;
        int sig = 0;
        int exit_code = 0;
        int handler_lines = 0;
        int body_lines = 0;
        bool returned = false;
        int h_alt = 0;
        unsigned long long h_type = 0;
    };

    template<class F>
    ForkOut in_fork(PolState& s, int mode, F&& f) {
        ForkOut fo;
        int fds[2];
        if (pipe(fds) != 0)
            return fo;
        fflush(stdout);
        fflush(stderr);
        pid_t pid = fork();
        if (pid == 0) {
            close(fds[0]);
            int dn = open("/dev/null", O_WRONLY);
            if (dn >= 0) {
                dup2(dn, 2);
                dup2(dn, 1);
            }
            signal(SIGABRT, SIG_DFL);
            g.probe_fd = fds[1];
            s.ops->set_handler(mode);
            f();
            probe_write_line("R\n", fds[1]);
            _exit(0);
        }
        close(fds[1]);
        std::string buf;
        char tmp[512];
        ssize_t n;
        while ((n = read(fds[0], tmp, sizeof tmp)) > 0)
            buf.append(tmp, (std::size_t)n);
        close(fds[0]);
        int st = 0;
        waitpid(pid, &st, 0);
        if (WIFSIGNALED(st)) {
            fo.signaled = true;
            fo.sig = WTERMSIG(st);
        } else if (WIFEXITED(st))
            fo.exit_code = WEXITSTATUS(st);
        std::istringstream is(buf);
        std::string line;
        while (std::getline(is, line)) {
            if (line.empty())
                continue;
            if (line[0] == 'H') {
                ++fo.handler_lines;
                int alt = 0, stt = 0;
                unsigned long long ar = 0, ty = 0;
                sscanf(line.c_str(), "H %d %d %llu %llu", &alt, &stt, &ar, &ty);
                fo.h_alt = alt;
                fo.h_type = ty;
            } else if (line[0] == 'B')
                ++fo.body_lines;
            else if (line[0] == 'R')
                fo.returned = true;
        }
        ++res.st.forks;
        return fo;
    }

    static void probe_write_line(const char* s, int fd) {
        ssize_t r = write(fd, s, strlen(s));
        (void)r;
    }

    void do_call(const Event& e) {
        if (e.pol < 0 || e.pol >= (int)ps.size())
            return invalid("call: bad policy");
        auto& s = ps[e.pol];
        auto& ops = *s.ops;
        if (!s.clean || s.aborted || s.live != s.updated)
            return invalid("call: policy not clean");
        if (e.meth < 0 || e.meth >= (int)plan.recs.size() ||
            !s.updated.has_method(e.meth))
            return invalid("call: method not live");
        Lattice L = make_lattice(plan, s.updated);
        auto mv = method_views(s, s.updated);
        const MethodView* m = nullptr;
        for (auto& x : mv)
            if (x.rec == e.meth)
                m = &x;
        int k = m->si.arity;
        if ((int)e.args.size() != k || (int)e.aliases.size() != k ||
            (int)e.rts.size() != k)
            return invalid("call: argument count");
        auto& mr = plan.recs[e.meth];
        // which arguments are the fault?
        int unknown_pos = -1;
        bool final_mismatch = false;
        std::string kinds = m->si.kinds;
        std::vector<char> vk;
        for (char kc : kinds)
            if (kc != 'I')
                vk.push_back(kc);
        for (int i = 0; i < k; ++i) {
            int c = e.args[i];
            if (c < 0 || c >= w.ncls)
                return invalid("call: bad class");
            if (e.aliases[i] < 0 || e.aliases[i] >= (int)w.ids[c].size())
                return invalid("call: bad alias");
            if ((e.rts[i] & 0x100)) {
                // final on static type Obj: always a mismatch
                if (vk[i] != 'Q' && vk[i] != 'C')
                    return invalid("call: final needs a virtual_ptr parameter");
                if (!ops.caps.checked)
                    return invalid("call: final mismatch on unchecked policy");
                final_mismatch = true;
                continue;
            }
            if ((e.rts[i] & 0xff) >= (vk[i] == 'W' ? 8 : RT_COUNT))
                return invalid("call: bad route");
            if (((e.rts[i] & 0xff) == RT_FINAL || (e.rts[i] & 0xff) == 7) &&
                e.aliases[i] != 0)
                return invalid("call: final on an alias id");
            if (legal_arg(s, L, c, e.aliases[i], mr.vp[i]))
                continue;
            // not legal: only as the "lost registration" fault, on a checked
            // policy, for a class with no live record at all
            bool any_alias_registered = L.reg[c];
            if (!plan.allow_missing || !ops.caps.lookup_checked ||
                any_alias_registered || w.abstract[c])
                return invalid("call: illegal argument class");
            if (is_vp_kind(vk[i]) &&
                ((e.rts[i] & 0xff) == RT_FINAL || (e.rts[i] & 0xff) == 7))
                return invalid("call: final does not look the class up");
            if (unknown_pos < 0)
                unknown_pos = i;
        }
        std::vector<CallArg> args(k);
        for (int i = 0; i < k; ++i) {
            args[i].cls = e.args[i];
            args[i].alias = e.aliases[i];
            args[i].route = e.rts[i];
        }
        std::string where = "slot " + std::to_string(m->slot) + " (" + kinds +
            ") tuple (" + join(e.args) + ")";
        if (e.fork) {
            // abort probe: the handler returns (or is the shipped default);
            // the process must die by abort, without running a definition
            if (e.mode != HM_RETURNS && e.mode != HM_DEFAULT)
                return invalid("call: fork needs a returning handler");
            if (ops.caps.throws)
                return invalid("call: throwing policy cannot return");
            Res want;
            bool expect_error = unknown_pos >= 0 || final_mismatch;
            if (!expect_error) {
                want = dispatch(plan, L, m->defs, e.args);
                expect_error = want.kind != RES_DEF;
            }
            if (!expect_error)
                return invalid("call: probe on a call that succeeds");
            ForkOut fo = in_fork(s, e.mode, [&] {
                ops.call(m->slot, args.data(), k, e.resolve != 0, false, -1);
            });
            ++res.st.faults["handler_returns"];
            std::ostringstream ls;
            ls << "probe " << where << " sig=" << fo.sig
               << " handler=" << fo.handler_lines << " body=" << fo.body_lines;
            log(ls.str());
            J d = call_diag(s, L, *m, e.args);
            d.set("signal", fo.sig);
            d.set("handler_lines", fo.handler_lines);
            d.set("body_lines", fo.body_lines);
            const char* prop = (unknown_pos >= 0 || final_mismatch) ? "C15" : "C02";
            if (fo.body_lines)
                return violate(
                    prop, "abort-probe", "definition-ran",
                    "a definition ran for " + where, d);
            if (!fo.signaled || fo.sig != SIGABRT || fo.returned)
                return violate(
                    prop, "abort-probe", "no-abort",
                    "handler returned and the program did not abort for " +
                        where,
                    d);
            if (e.mode == HM_RETURNS && fo.handler_lines != 1)
                return violate(
                    prop, "abort-probe", "handler-count",
                    "handler called " + std::to_string(fo.handler_lines) +
                        " times before abort for " + where,
                    d);
            return;
        }
        if (unknown_pos >= 0 || final_mismatch) {
            ++res.st.faults[final_mismatch ? "final_mismatch"
                                           : "lost_registration_call"];
            CallOut out =
                ops.call(m->slot, args.data(), k, e.resolve != 0, false, -1);
            ++res.st.calls;
            std::ostringstream ls;
            ls << "call-fault " << where << " err=" << out.err.alt
               << " frames=" << out.nframes;
            log(ls.str());
            J d = call_diag(s, L, *m, e.args);
            d.set("routes", J::arr_of(e.rts));
            d.set("err_alt", out.err.alt);
            if (out.nframes)
                return violate(
                    "C15", "call", "definition-ran",
                    "a definition ran for " + where +
                        " although an argument's class is not registered",
                    d);
            if (out.returned)
                return violate(
                    "C15", "call", "not-diagnosed",
                    "call returned for " + where, d);
            if (final_mismatch) {
                if (out.err.alt != EA_METHOD_TABLE)
                    return violate(
                        "C15", "call", "wrong-error",
                        "final with another dynamic type is not reported as "
                        "a method table error for " +
                            where,
                        d);
            } else {
                if (out.err.alt != EA_UNKNOWN_CLASS)
                    return violate(
                        "C15", "call", "wrong-error",
                        "unregistered dynamic class is not reported as "
                        "unknown class for " +
                            where,
                        d);
                bool match = false;
                for (int i = 0; i < k; ++i)
                    if (!L.reg[e.args[i]] &&
                        out.err.type == ops.class_id(e.args[i], e.aliases[i]))
                        match = true;
                if (!match)
                    return violate(
                        "C15", "call", "wrong-type-id",
                        "unknown class error does not carry the id of the "
                        "unregistered class for " +
                            where,
                        d);
                ++res.st.unknown_class_reports;
            }
            if (out.err.handler_calls != 1)
                return violate(
                    "C15", "call", "handler-count",
                    "handler called " +
                        std::to_string(out.err.handler_calls) + " times for " +
                        where,
                    d);
            return;
        }
        Res want = dispatch(plan, L, m->defs, e.args);
        // the same call again and again: an error raised (and thrown out of
        // the handler) n times must leave nothing behind
        int rep = std::max(1, std::min(e.repeat, 1000));
        for (int i = 0; i < rep && !stop; ++i)
            verify_call(
                s, L, *m, e.args, args, want, e.resolve != 0, false, "C01");
        if (rep > 1 && want.kind != RES_DEF)
            ++res.st.faults["handler_throws_repeatedly"];
        log("call " + where + " x" + std::to_string(rep));
    }

    bool held_usable(PolState& s, const HeldVp& h, const Lattice& L) {
        if (!h.live)
            return false;
        if (!L.reg[h.cls] || (L.abstract[h.cls] && !plan.abstract_args))
            return false;
        if (!s.ops->caps.stdrtti &&
            !((registered_aliases(s.updated, h.cls) >> h.alias) & 1u))
            return false;
        return s.ops->caps.indirect || h.epoch == s.epoch;
    }

    void do_vp_make(const Event& e) {
        if (e.pol < 0 || e.pol >= (int)ps.size())
            return invalid("vp_make: bad policy");
        auto& s = ps[e.pol];
        auto& ops = *s.ops;
        if (!s.clean || s.aborted || s.live != s.updated)
            return invalid("vp_make: policy not clean");
        if (e.vslot < 0 || e.vslot >= MAXVP)
            return invalid("vp_make: bad slot");
        if (e.cls < 0 || e.cls >= w.ncls || e.alias < 0 ||
            e.alias >= (int)w.ids[e.cls].size())
            return invalid("vp_make: bad class");
        int route = e.route & 0xff;
        if (route >= (e.shared ? 8 : RT_COUNT))
            return invalid("vp_make: bad route");
        if ((route == RT_FINAL || route == 7) && e.alias != 0)
            return invalid("vp_make: final on an alias id");
        Lattice L = make_lattice(plan, s.updated);
        bool missing = false;
        if (!legal_arg(s, L, e.cls, e.alias, e.cls)) {
            if (!plan.allow_missing || !ops.caps.lookup_checked || L.reg[e.cls] ||
                w.abstract[e.cls])
                return invalid("vp_make: illegal class");
            missing = true;
        }
        ErrInfo err = ops.vp_make(e.vslot, e.cls, e.alias, e.route, e.shared);
        ++res.st.vp_made;
        std::ostringstream ls;
        ls << "vp_make " << s.name << " v" << e.vslot << " c" << e.cls
           << " r" << e.route << " sh" << e.shared << " err=" << err.alt;
        log(ls.str());
        J d = base_diag(s, L);
        d.set("class", e.cls);
        d.set("route", e.route);
        d.set("shared", e.shared);
        d.set("alias", e.alias);
        if (missing) {
            ++res.st.faults["lost_registration_virtual_ptr"];
            s.held[e.vslot].live = false;
            VpInfo vi = ops.vp_info(e.vslot);
            ops.vp_drop(e.vslot);
            if (err.alt == EA_NONE) {
                d.set("vptr_null", vi.vptr == 0);
                return violate(
                    "C15", "virtual_ptr", "not-diagnosed",
                    "virtual_ptr to an object of unregistered class " +
                        std::to_string(e.cls) + " built without a report",
                    d);
            }
            if (route == RT_FINAL || route == 7) {
                // final does not look the class up: nothing to demand
                return;
            }
            if (err.alt != EA_UNKNOWN_CLASS ||
                err.type != ops.class_id(e.cls, e.alias))
                return violate(
                    "C15", "virtual_ptr", "wrong-error",
                    "virtual_ptr construction for unregistered class " +
                        std::to_string(e.cls) +
                        " did not report that class as unknown",
                    d);
            ++res.st.unknown_class_reports;
            return;
        }
        if (err.alt != EA_NONE) {
            d.set("err_alt", err.alt);
            s.held[e.vslot].live = false;
            return violate(
                "C09", "virtual_ptr", "construction-raised",
                "virtual_ptr construction raised an error for registered "
                "class " +
                    std::to_string(e.cls),
                d);
        }
        auto& h = s.held[e.vslot];
        h.live = true;
        h.cls = e.cls;
        h.alias = e.alias;
        h.route = e.route;
        h.epoch = s.epoch;
        h.shared = e.shared != 0;
        check_held(s, e.vslot, L, true);
        note_own_event(s);
    }

    void check_held(PolState& s, int k, const Lattice& L, bool fresh) {
        auto& h = s.held[k];
        VpInfo vi = s.ops->vp_info(k);
        Snap sn = s.ops->snap();
        J d = base_diag(s, L);
        d.set("class", h.cls);
        d.set("route", h.route);
        d.set("shared", h.shared);
        d.set("made_in_epoch", h.epoch);
        std::uintptr_t want_obj = 0;
        if (h.shared && (h.route & 0xff) == 7) {
            // make_virtual_shared created its own object
            if (fresh)
                h.obj = vi.obj;
            want_obj = h.obj;
        } else {
            want_obj = (std::uintptr_t)harness_object(h.cls, h.alias);
            h.obj = want_obj;
        }
        if (!vi.live || vi.obj != want_obj || vi.obj <= 1)
            return violate(
                "C09", "virtual_ptr", "wrong-object",
                "get / * / -> of a virtual_ptr do not give back the original "
                "object",
                d);
        if (vi.vptr != sn.static_vptr[h.cls]) {
            d.set("vptr_null", vi.vptr == 0);
            return violate(
                "C09", "virtual_ptr", fresh ? "wrong-vptr" : "stale-vptr",
                std::string("virtual_ptr to class ") + std::to_string(h.cls) +
                    (vi.vptr == 0 ? " has a null v-table pointer"
                                  : " does not hold that class's v-table "
                                    "pointer"),
                d);
        }
    }

    void do_vp_copy(const Event& e) {
        if (e.pol < 0 || e.pol >= (int)ps.size())
            return invalid("vp_copy: bad policy");
        auto& s = ps[e.pol];
        if (e.vslot < 0 || e.vslot >= MAXVP || e.vfrom < 0 ||
            e.vfrom >= MAXVP || e.vslot == e.vfrom)
            return invalid("vp_copy: bad slot");
        if (!s.held[e.vfrom].live)
            return invalid("vp_copy: source not live");
        s.ops->vp_copy(e.vslot, e.vfrom, e.route);
        s.held[e.vslot] = s.held[e.vfrom];
        log("vp_copy " + s.name + " v" + std::to_string(e.vfrom) + "->v" +
            std::to_string(e.vslot));
        VpInfo a = s.ops->vp_info(e.vfrom), b = s.ops->vp_info(e.vslot);
        if (!b.live || a.obj != b.obj || a.vptr != b.vptr) {
            J d = J::obj();
            d.set("policy", s.name);
            d.set("how", e.route);
            return violate(
                "C09", "virtual_ptr", "copy-differs",
                "a copied / moved virtual_ptr differs from its source", d);
        }
        note_own_event(s);
    }

    void do_vp_drop(const Event& e) {
        if (e.pol < 0 || e.pol >= (int)ps.size())
            return invalid("vp_drop: bad policy");
        auto& s = ps[e.pol];
        if (e.vslot < 0 || e.vslot >= MAXVP)
            return invalid("vp_drop: bad slot");
        s.ops->vp_drop(e.vslot);
        s.held[e.vslot].live = false;
        log("vp_drop " + s.name + " v" + std::to_string(e.vslot));
        note_own_event(s);
    }

    // call a method with held virtual_ptrs: rts[i] >= 0x1000 names a held
    // slot, otherwise the argument is made afresh by that route
    void do_vp_use(const Event& e) {
        if (e.pol < 0 || e.pol >= (int)ps.size())
            return invalid("vp_use: bad policy");
        auto& s = ps[e.pol];
        auto& ops = *s.ops;
        if (!s.clean || s.aborted || s.live != s.updated)
            return invalid("vp_use: policy not clean");
        if (!s.updated.has_method(e.meth))
            return invalid("vp_use: method not live");
        Lattice L = make_lattice(plan, s.updated);
        auto mv = method_views(s, s.updated);
        const MethodView* m = nullptr;
        for (auto& x : mv)
            if (x.rec == e.meth)
                m = &x;
        int k = m->si.arity;
        if ((int)e.args.size() != k || (int)e.aliases.size() != k)
            return invalid("vp_use: argument count");
        std::string kinds = m->si.kinds;
        std::vector<char> vk;
        for (char kc : kinds)
            if (kc != 'I')
                vk.push_back(kc);
        auto& mr = plan.recs[e.meth];
        std::vector<CallArg> args(k);
        std::vector<int> tuple(k);
        bool any_held = false;
        for (int i = 0; i < k; ++i) {
            int a = e.args[i];
            if (a >= 0x1000) {
                int vs = a - 0x1000;
                if (vs >= MAXVP || !is_vp_kind(vk[i]))
                    return invalid("vp_use: held pointer for a non-pointer "
                                   "parameter");
                auto& h = s.held[vs];
                if (!held_usable(s, h, L))
                    return invalid("vp_use: pointer not usable now");
                if (h.shared != (vk[i] == 'W'))
                    return invalid("vp_use: pointer flavour");
                if (!L.le(h.cls, mr.vp[i]))
                    return invalid("vp_use: pointee class not acceptable");
                check_held(s, vs, L, false);
                if (stop)
                    return;
                args[i].vslot = vs;
                args[i].cls = h.cls;
                args[i].alias = h.alias;
                tuple[i] = h.cls;
                any_held = true;
                if (h.epoch != s.epoch)
                    ++res.st.faults["virtual_ptr_across_update"];
            } else {
                if (!legal_arg(s, L, a, e.aliases[i], mr.vp[i]))
                    return invalid("vp_use: illegal argument class");
                args[i].cls = a;
                args[i].alias = e.aliases[i];
                args[i].route = RT_REF;
                tuple[i] = a;
            }
        }
        if (!any_held)
            return invalid("vp_use: no held pointer");
        ++res.st.vp_used;
        Res want = dispatch(plan, L, m->defs, tuple);
        // the same call with a plain reference is what the model says; the
        // table walk is how a plain reference dispatches
        Snap sn = ops.snap();
        Walk wk = walk(sn, m->si, tuple);
        if (!wk.ok)
            return; // reported by check
        verify_call(s, L, *m, tuple, args, want, false, false, "C09");
        log("vp_use " + s.name + " slot " + std::to_string(m->slot) +
            " tuple " + join(tuple));
    }

    // ---------------------------------------------------------------------

    std::vector<std::unique_ptr<char[]>> jitter;

    void begin() {
        // resolve policies
        std::set<std::string> seen;
        for (auto& name : plan.pols) {
            PolicyOps* ops = find_policy(name);
            if (!ops)
                return invalid("unknown policy " + name);
            if (!seen.insert(name).second)
                return invalid("policy used twice");
            PolState s;
            s.ops = ops;
            s.name = name;
            ps.push_back(s);
        }
        if (plan.w.ncls < 0 || plan.w.ncls > MAXC ||
            (int)plan.w.parents.size() != plan.w.ncls ||
            (int)plan.w.abstract.size() != plan.w.ncls ||
            (int)plan.w.ids.size() != plan.w.ncls)
            return invalid("world shape");
        for (auto& v : plan.w.ids)
            if (v.empty() || v.size() > MAXALIAS)
                return invalid("world ids");
        if ((int)plan.recs.size() > MAXREC)
            return invalid("too many records");
        if (!ids_unique())
            return invalid("ids not unique");
        loaded.assign(plan.recs.size(), 0);
        // every policy starts from its load-time state
        for (auto& s : ps) {
            s.ops->reset();
            std::string why = s.ops->pristine();
            if (!why.empty()) {
                fprintf(
                    stderr, "yosim: policy %s not pristine: %s\n",
                    s.name.c_str(), why.c_str());
                abort();
            }
            s.ops->set_handler(HM_THROW);
            s.handler_mode = HM_THROW;
        }
        set_world_ids(w);
        // heap jitter: vary allocation addresses on purpose
        for (int i = 0; i < plan.heap_jitter; ++i)
            jitter.emplace_back(new char[16 + (i * 37) % 200]);
    }

    // execute one event; false when the run must stop
    bool step(std::size_t i) {
        if (stop || i >= plan.events.size())
            return false;
        {
            cur_event = (int)i;
            auto& e = plan.events[i];
            ++res.st.events;
            sig.u64((std::uint64_t)e.op);
            switch (e.op) {
            case OP_LOAD:
                do_load(e);
                break;
            case OP_UNLOAD:
                do_unload(e);
                break;
            case OP_UPDATE:
                do_update(e);
                break;
            case OP_CHECK:
                do_check(e);
                break;
            case OP_RELOCATE:
                do_relocate(e);
                break;
            case OP_HANDLER:
                do_handler(e);
                break;
            case OP_CALL:
                do_call(e);
                break;
            case OP_VP_MAKE:
                do_vp_make(e);
                break;
            case OP_VP_COPY:
                do_vp_copy(e);
                break;
            case OP_VP_USE:
                do_vp_use(e);
                break;
            case OP_VP_DROP:
                do_vp_drop(e);
                break;
            case OP_OFFSETS:
                do_offsets(e);
                break;
            case OP_RESTART:
                do_restart(e);
                break;
            case OP_DECODE:
                do_decode(e);
                break;
            case OP_RECYCLE:
                do_recycle(e);
                break;
            default:
                invalid("bad op");
            }
        }
        return !stop;
    }

    void finish(bool leave_loaded = false) {
        for (auto& s : ps)
            res.final_live[s.name] = s.live;
        // leave the policies in their load-time state
        if (!leave_loaded)
            for (auto& s : ps) {
                s.ops->reset();
                // every registration object was destroyed: nothing may remain
                std::string why = s.ops->pristine();
                if (!why.empty()) {
                    res.poisoned = true;
                    bool was_stopped = stop;
                    cur_event = -1;
                    J d = J::obj();
                    d.set("policy", s.name);
                    d.set("what", why);
                    violate(
                        "C18", "catalog", "residue",
                        "after every registration object of policy " + s.name +
                            " was destroyed: " + why,
                        d);
                    stop = was_stopped;
                }
            }
        res.evhash = evh.h;
        res.signature = sig.h;
        res.nontrivial = res.st.mi_classes > 0 || res.st.multi_applicable > 0 ||
            !res.st.faults.empty();
    }

    void run() {
        begin();
        for (std::size_t i = 0; i < plan.events.size() && !stop; ++i)
            step(i);
        finish();
    }
};

} // namespace

RunResult execute(const Plan& plan, const ExecOpts& opts) {
    Exec ex(plan, opts);
    ex.run();
    ex.res.final_world = ex.w;
    return std::move(ex.res);
}

// stepwise execution (sched-sim drives events from a task thread)
struct Session::Impl {
    Plan plan;
    ExecOpts opts;
    Exec ex;
    Impl(const Plan& p, const ExecOpts& o) : plan(p), opts(o), ex(plan, opts) {
    }
};

Session::Session(const Plan& plan, const ExecOpts& opts)
    : impl(new Impl(plan, opts)) {
    impl->ex.begin();
}
Session::~Session() {
    delete impl;
}
bool Session::step(std::size_t i) {
    return impl->ex.step(i);
}
bool Session::stopped() const {
    return impl->ex.stop;
}
RunResult Session::finish() {
    impl->ex.finish(false);
    impl->ex.res.final_world = impl->ex.w;
    return impl->ex.res;
}
PolicyOps* Session::ops(int pol) {
    return impl->ex.ps[pol].ops;
}
const Registry& Session::updated(int pol) {
    return impl->ex.ps[pol].updated;
}

// ---------------------------------------------------------------------------
// differential modes

namespace {

bool first_diff(
    const std::map<std::string, std::string>& a,
    const std::map<std::string, std::string>& b, std::string& what) {
    for (auto& kv : a) {
        auto it = b.find(kv.first);
        if (it == b.end()) {
            what = kv.first + ": " + kv.second + " vs (absent)";
            return true;
        }
        if (it->second != kv.second) {
            what = kv.first + ": " + kv.second + " vs " + it->second;
            return true;
        }
    }
    for (auto& kv : b)
        if (!a.count(kv.first)) {
            what = kv.first + ": (absent) vs " + kv.second;
            return true;
        }
    return false;
}

void merge(RunResult& into, RunResult&& v, const std::string& tag) {
    into.st.add(v.st);
    ++into.st.variants;
    Hash h;
    h.u64(into.evhash);
    h.u64(v.evhash);
    into.evhash = h.h;
    for (auto& line : v.log)
        into.log.push_back(tag + ": " + line);
    if (v.status == RS_VIOLATION) {
        for (auto& x : v.v) {
            x.detail = "[" + tag + "] " + x.detail;
            x.diag.set("variant", tag);
            into.v.push_back(x);
        }
        if (into.status == RS_OK)
            into.status = RS_VIOLATION;
    }
    into.nontrivial = into.nontrivial || v.nontrivial;
    into.poisoned = into.poisoned || v.poisoned;
}

void diff_violation(
    RunResult& r, const std::string& prop, const std::string& oracle,
    const std::string& cls, const std::string& detail, const std::string& pol) {
    Violation v;
    v.prop = prop;
    v.oracle = oracle;
    v.cls = cls;
    v.detail = detail;
    v.diag.set("policy", pol);
    r.v.push_back(v);
    if (r.status == RS_OK)
        r.status = RS_VIOLATION;
}

// last CHECK event of a policy in a plan (its sampling parameters)
const Event* last_check(const Plan& p, int pol) {
    const Event* e = nullptr;
    for (auto& ev : p.events)
        if (ev.op == OP_CHECK && ev.pol == pol)
            e = &ev;
    return e;
}

} // namespace

Plan restrict_to_policy(const Plan& p, int keep) {
    Plan q = p;
    q.diff.clear();
    q.orders.clear();
    q.pols = {p.pols[keep]};
    std::vector<int> remap(p.recs.size(), -1);
    q.recs.clear();
    for (std::size_t i = 0; i < p.recs.size(); ++i) {
        if (p.recs[i].pol != keep)
            continue;
        remap[i] = (int)q.recs.size();
        Rec r = p.recs[i];
        r.pol = 0;
        q.recs.push_back(r);
    }
    for (auto& r : q.recs)
        if (r.kind == RK_DEF)
            r.meth = remap[r.meth];
    q.events.clear();
    for (auto e : p.events) {
        if (e.op == OP_LOAD || e.op == OP_UNLOAD || e.op == OP_RECYCLE) {
            std::vector<int> v;
            for (int ri : e.recs)
                if (ri >= 0 && ri < (int)remap.size() && remap[ri] >= 0)
                    v.push_back(remap[ri]);
            if (v.empty())
                continue;
            e.recs = v;
        } else if (e.op == OP_RELOCATE) {
            // the loader's decision: kept for every policy
        } else {
            if (e.pol != keep)
                continue;
            e.pol = 0;
            if (e.op == OP_CALL || e.op == OP_VP_USE ||
                (e.op == OP_OFFSETS && e.meth >= 0))
                e.meth = remap[e.meth];
        }
        q.events.push_back(e);
    }
    return q;
}

RunResult run_plan(const Plan& plan, const ExecOpts& opts) {
    RunResult base = execute(plan, opts);
    if (base.status == RS_INVALID || plan.diff.empty())
        return base;
    auto has_focus = [&](const RunResult& r) {
        if (opts.focus.empty())
            return r.status == RS_VIOLATION;
        for (auto& v : r.v)
            if (v.prop == opts.focus)
                return true;
        return false;
    };
    // (observations of other properties' oracles do not stop the differential)
    if (has_focus(base) && opts.stop_at_first)
        return base;

    if (plan.diff == "orders") {
        if (plan.events.empty() || plan.events[0].op != OP_LOAD)
            return base;
        int vi = 0;
        for (auto& order : plan.orders) {
            Plan v = plan;
            v.diff.clear();
            v.orders.clear();
            auto sorted_a = plan.events[0].recs, sorted_b = order;
            std::sort(sorted_a.begin(), sorted_a.end());
            std::sort(sorted_b.begin(), sorted_b.end());
            if (sorted_a != sorted_b) {
                base.status = RS_INVALID;
                base.invalid_why = "orders: not a permutation";
                return base;
            }
            v.events[0].recs = order;
            RunResult r = execute(v, opts);
            if (r.status == RS_INVALID) {
                base.status = RS_INVALID;
                base.invalid_why = "orders variant: " + r.invalid_why;
                return base;
            }
            auto tables = r.tables;
            merge(base, std::move(r), "order" + std::to_string(vi));
            for (auto& kv : base.tables) {
                std::string what;
                auto it = tables.find(kv.first);
                if (it != tables.end() &&
                    first_diff(kv.second, it->second, what))
                    diff_violation(
                        base, "C06", "order-diff", "outcome-differs",
                        "outcome depends on registration order: " + what,
                        kv.first);
            }
            ++vi;
            if (has_focus(base) && opts.stop_at_first)
                break;
        }
        return base;
    }

    if (plan.diff == "solo" && opts.solo) {
        // C14: what a policy does must not depend on what other policies did
        // before or meanwhile; compare with the same events of that policy
        // alone, in a pristine process
        for (int pi = 0; pi < (int)plan.pols.size() && plan.pols.size() > 1; ++pi) {
            auto& pname = plan.pols[pi];
            auto tit = base.tables.find(pname);
            if (tit == base.tables.end() || !last_check(plan, pi))
                continue;
            Plan v = restrict_to_policy(plan, pi);
            std::map<std::string, std::map<std::string, std::string>> tables;
            if (!opts.solo(v, tables))
                continue;
            ++base.st.variants;
            auto it = tables.find(pname);
            std::string what;
            if (it != tables.end() && first_diff(tit->second, it->second, what))
                diff_violation(
                    base, "C14", "solo-diff", "outcome-differs",
                    "policy " + pname +
                        " behaves differently next to the other policies of "
                        "the plan than alone in a pristine process: " +
                        what,
                    pname);
        }
        return base;
    }

    if (plan.diff == "flavours") {
        // only meaningful if every policy holds the same abstract registry
        std::string ref_sig;
        for (int pi = 0; pi < (int)plan.pols.size(); ++pi) {
            const Registry& live = base.final_live[plan.pols[pi]];
            Lattice L = make_lattice(plan, live);
            std::ostringstream os;
            for (int c = 0; c < L.n; ++c)
                if (L.reg[c])
                    os << c << ":" << L.anc[c] << ";";
            std::vector<std::string> ms;
            for (int mi : live.methods) {
                std::ostringstream m;
                m << "m" << plan.recs[mi].slot;
                for (int c : plan.recs[mi].vp)
                    m << "," << c;
                std::vector<std::string> ds;
                auto it = live.defs.find(mi);
                if (it != live.defs.end())
                    for (int di : it->second) {
                        std::ostringstream d;
                        d << "d" << plan.recs[di].body;
                        for (int c : plan.recs[di].vp)
                            d << "," << c;
                        ds.push_back(d.str());
                    }
                std::sort(ds.begin(), ds.end());
                for (auto& d : ds)
                    m << "|" << d;
                ms.push_back(m.str());
            }
            std::sort(ms.begin(), ms.end());
            for (auto& m : ms)
                os << m << ";";
            if (pi == 0)
                ref_sig = os.str();
            else if (os.str() != ref_sig) {
                base.status = RS_INVALID;
                base.invalid_why = "flavours: registries differ";
                return base;
            }
        }
        const std::map<std::string, std::string>* ref = nullptr;
        std::string refname;
        for (auto& kv : base.tables) {
            if (!ref) {
                ref = &kv.second;
                refname = kv.first;
                continue;
            }
            std::string what;
            if (first_diff(*ref, kv.second, what))
                diff_violation(
                    base, plan.prop == "C12" ? "C12" : "C10", "flavour-diff",
                    "outcome-differs",
                    "policies " + refname + " and " + kv.first +
                        " dispatch differently: " + what,
                    kv.first);
        }
        return base;
    }

    if (plan.diff == "fresh" || plan.diff == "canonical") {
        bool canonical = plan.diff == "canonical";
        for (int pi = 0; pi < (int)plan.pols.size(); ++pi) {
            auto& pname = plan.pols[pi];
            auto tit = base.tables.find(pname);
            const Event* lc = last_check(plan, pi);
            if (tit == base.tables.end() || !lc)
                continue;
            const Registry& live = base.final_live[pname];
            Plan v;
            v.seed = plan.seed;
            v.prop = plan.prop;
            v.profile = plan.profile + (canonical ? "/canonical" : "/fresh");
            v.pols = {pname};
            v.w = base.final_world;
            v.allow_missing = 0;
            v.abstract_args = plan.abstract_args;
            Event load;
            load.op = OP_LOAD;
            auto add = [&](const Rec& r) {
                Rec c = r;
                c.pol = 0;
                v.recs.push_back(c);
                return (int)v.recs.size() - 1;
            };
            std::map<int, int> remap;
            if (canonical) {
                // one record per registered (class, alias), complete lists
                Lattice L = make_lattice(plan, live);
                std::set<std::pair<int, int>> done;
                for (int ri : live.classes) {
                    auto& r = plan.recs[ri];
                    if (!done.insert({r.cls, r.alias}).second)
                        continue;
                    Rec c;
                    c.kind = RK_CLASS;
                    c.cls = r.cls;
                    c.alias = r.alias;
                    for (int b = 0; b < L.n; ++b)
                        if (L.le(r.cls, b))
                            c.bases.push_back(b);
                    load.recs.push_back(add(c));
                }
            } else {
                for (int ri : live.classes)
                    load.recs.push_back(add(plan.recs[ri]));
            }
            for (int mi : live.methods) {
                remap[mi] = add(plan.recs[mi]);
                load.recs.push_back(remap[mi]);
            }
            for (int mi : live.methods) {
                auto it = live.defs.find(mi);
                if (it == live.defs.end())
                    continue;
                for (int di : it->second) {
                    Rec d = plan.recs[di];
                    d.meth = remap[mi];
                    load.recs.push_back(add(d));
                }
            }
            v.events.push_back(load);
            Event up;
            up.op = OP_UPDATE;
            up.pol = 0;
            v.events.push_back(up);
            Event ck = *lc;
            ck.pol = 0;
            v.events.push_back(ck);
            ExecOpts vo = opts;
            vo.watch_isolation = false;
            RunResult r = execute(v, vo);
            if (r.status == RS_INVALID) {
                base.status = RS_INVALID;
                base.invalid_why = plan.diff + " variant: " + r.invalid_why;
                return base;
            }
            auto tables = r.tables;
            // violations of the counterpart alone are not this property's
            r.v.clear();
            r.status = RS_OK;
            merge(base, std::move(r), plan.diff + ":" + pname);
            std::string what;
            auto it = tables.find(pname);
            if (it != tables.end() && first_diff(tit->second, it->second, what))
                diff_violation(
                    base, canonical ? "C08" : "C07",
                    canonical ? "presentation-diff" : "history-diff",
                    "outcome-differs",
                    std::string(
                        canonical
                            ? "outcome differs from the canonical "
                              "presentation of the same graph: "
                            : "outcome after the history differs from a "
                              "fresh update of the same registrations: ") +
                        what,
                    pname);
        }
        return base;
    }
    return base;
}

} // namespace ys
