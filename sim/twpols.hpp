// The two stock-shaped std_rtti policies of the typed world, visible to the
// generator glue (genglue.cpp) as well as to tw.cpp.
#pragma once

#include <yorel/yomm2/core.hpp>

namespace ys {
struct tw_dbg : yorel::yomm2::policy::debug::rebind<tw_dbg> {};
struct tw_rel : yorel::yomm2::policy::release::rebind<tw_rel> {};
// the construction world (tw.cpp): methods called from the constructor and
// the destructor of an abstract base
struct cw_policy : yorel::yomm2::policy::debug::rebind<cw_policy> {};
} // namespace ys
