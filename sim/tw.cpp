// Typed world (TW): the real registration front-end (use_classes,
// class_declaration, method, add_function, thunks, casts) on fixed C++
// hierarchies, loaded and unloaded like images of shared libraries:
// every registration object lives in zeroed static storage and is
// placement-constructed on "load", destroyed and zeroed on "unload".
// The seed picks which menu entries are used, in what order, and the
// load / unload / update history. The oracle is the same reference model as
// for the synthetic world; the ground truth comes from std::is_base_of.
#include "mini.hpp"
#include "model.hpp"
#include "ops.hpp"
#include "emitted.hpp"
#include "twpols.hpp"

#include <yorel/yomm2/core.hpp>
#include <yorel/yomm2/keywords.hpp>

#include <alloca.h>
#include <yorel/yomm2/decode.hpp>
#ifndef YS_NO_GLUE
#include "glue.hpp"
#endif

#include <cstring>
#include <memory>
#include <sstream>
#include <new>

namespace ys {

namespace y2 = yorel::yomm2;

namespace {

// ---- hierarchies: a tree, multiple inheritance with a second base at a
// non-zero offset, a diamond with virtual bases

struct Animal {
    virtual ~Animal() {
    }
    int a = 1;
};
struct Dog : Animal {
    int d = 2;
    int member_kick() {
        g_member_this = this;
        return 701;
    }
    static inline thread_local const void* g_member_this = nullptr;
};
struct Cat : Animal {
    int c = 3;
};
struct Bulldog : Dog {
    int b = 4;
    int member_kick_bulldog() {
        g_member_this = this;
        return 702;
    }
};
struct Property {
    virtual ~Property() {
    }
    long p = 5;
};
struct Robot : Property {
    int r = 6;
};
struct RoboDog : Dog, Property {
    int rd = 7;
};
struct VBase {
    virtual ~VBase() {
    }
    int v = 8;
};
struct VL : virtual VBase {
    int l = 9;
};
struct VR : virtual VBase {
    int r = 10;
};
struct VD : VL, VR {
    int vd = 11;
};

enum Cls { cAnimal, cDog, cCat, cBulldog, cProperty, cRobot, cRoboDog, cVBase, cVL, cVR, cVD, NCLS };

template<class T>
struct Idx;
#define IDX(T)                                                                 \
    template<>                                                                 \
    struct Idx<T> {                                                            \
        static constexpr int v = c##T;                                         \
    };
IDX(Animal)
IDX(Dog) IDX(Cat) IDX(Bulldog) IDX(Property) IDX(Robot) IDX(RoboDog) IDX(VBase) IDX(VL) IDX(VR) IDX(VD)
#undef IDX

// what a definition saw
struct Seen {
    int code = 0;
    const void* most_derived[4] = {};
    int n = 0;
    int next_code = 0;
    int vptr_bad = 0; // a virtual_ptr received by a definition does not hold
                      // its class's v-table pointer
};
thread_local Seen g_seen; // per caller thread (twsched runs callers concurrently)

template<class T>
const void* md(T& obj) {
    return dynamic_cast<const void*>(&obj);
}

thread_local int g_tw_handler_calls = 0;
struct TwThrow {
    int alt;
    int status;
    y2::type_id type;
};
void tw_handler(const y2::error_type& ev) {
    ++g_tw_handler_calls;
    TwThrow t{EA_GENERIC, 0, 0};
    if (auto e = std::get_if<y2::resolution_error>(&ev)) {
        t.alt = EA_RESOLUTION;
        t.status = e->status;
        t.type = e->types[0];
    } else if (auto e = std::get_if<y2::unknown_class_error>(&ev)) {
        t.alt = EA_UNKNOWN_CLASS;
        t.type = e->type;
    } else if (std::get_if<y2::hash_search_error>(&ev))
        t.alt = EA_HASH_SEARCH;
    else if (auto e = std::get_if<y2::method_table_error>(&ev)) {
        t.alt = EA_METHOD_TABLE;
        t.type = e->type;
    }
    throw t;
}

// ---- custom rtti for the typed world: small integer ids, eager or deferred;
// static_type can be made to throw during a registration (fault injection: a
// run-time id registry that does not know the class yet)

thread_local int g_tw_throw_in = -1; // armed by the registering thread only
struct TwRttiThrow {};

template<class T, class = void>
struct tw_has_idx : std::false_type {};
template<class T>
struct tw_has_idx<T, std::void_t<decltype(Idx<T>::v)>> : std::true_type {};

inline y2::type_id tw_dynamic_id(const std::type_info& t) {
    static const std::type_info* tbl[NCLS] = {
        &typeid(Animal), &typeid(Dog), &typeid(Cat), &typeid(Bulldog),
        &typeid(Property), &typeid(Robot), &typeid(RoboDog), &typeid(VBase),
        &typeid(VL), &typeid(VR), &typeid(VD)};
    for (int i = 0; i < NCLS; ++i)
        if (*tbl[i] == t)
            return (y2::type_id)(i + 1);
    return 0;
}

struct tw_rtti_impl {
    template<class T>
    static y2::type_id static_type() {
        if (g_tw_throw_in >= 0 && g_tw_throw_in-- == 0)
            throw TwRttiThrow{};
        if constexpr (tw_has_idx<T>::value) {
            return (y2::type_id)(Idx<T>::v + 1);
        } else {
            return 0;
        }
    }
    template<class T>
    static y2::type_id dynamic_type(const T& obj) {
        if constexpr (std::is_polymorphic_v<T>) {
            return tw_dynamic_id(typeid(obj));
        } else {
            return 0;
        }
    }
    template<class Stream>
    static void type_name(y2::type_id type, Stream& stream) {
        stream << "tw(" << type << ")";
    }
    static y2::type_id type_index(y2::type_id type) {
        return type;
    }
    template<typename D, typename B>
    static D dynamic_cast_ref(B&& obj) {
        return dynamic_cast<D>(obj);
    }
};
struct tw_rtti : virtual y2::policy::rtti, tw_rtti_impl {
    using tw_rtti_impl::type_index;
    using tw_rtti_impl::type_name;
};
struct tw_rtti_deferred : virtual y2::policy::deferred_static_rtti, tw_rtti_impl {
    using tw_rtti_impl::type_index;
    using tw_rtti_impl::type_name;
};

// ---- a loadable registration object in zeroed static storage

struct Item {
    const char* name;
    void (*load)();
    void (*unload)();
    // abstract content, for the model
    int kind; // RK_CLASS (a group of class records), RK_METHOD, RK_DEF
    std::vector<std::pair<int, std::vector<int>>> classes; // (class, listed bases)
    int method = -1;         // method index (RK_METHOD / RK_DEF)
    std::vector<int> vp;     // method: parameter classes; def: its classes
    int code = 0;            // def: what it returns
    bool has_next = false;
    // method: the definition catalog as the real list enumerates it
    std::vector<const void*> (*specs)() = nullptr;
    // def: where its definition_info lives once loaded
    y2::detail::definition_info** info = nullptr;
};

template<class T>
struct Slot {
    alignas(T) static inline unsigned char store[sizeof(T)];
    static inline bool live = false;
    static void load() {
        std::memset(store, 0, sizeof store);
        new (store) T();
        live = true;
    }
    static void unload() {
        reinterpret_cast<T*>(store)->~T();
        std::memset(store, 0, sizeof store);
        live = false;
    }
};

// classes listed in a use_classes statement -> abstract records
template<class C, class... All>
std::pair<int, std::vector<int>> listed_bases() {
    std::vector<int> b;
    ((std::is_base_of_v<All, C> ? (b.push_back(Idx<All>::v), 0) : 0), ...);
    return {Idx<C>::v, b};
}

template<class P, class... Cs>
Item use_item(const char* name) {
    using T = y2::use_classes<Cs..., P>;
    Item it;
    it.name = name;
    it.load = &Slot<T>::load;
    it.unload = &Slot<T>::unload;
    it.kind = RK_CLASS;
    (it.classes.push_back(listed_bases<Cs, Cs...>()), ...);
    return it;
}

template<class P, class C, class... Bases>
Item decl_item(const char* name) {
    using T = y2::class_declaration<C, Bases..., P>;
    Item it;
    it.name = name;
    it.load = &Slot<T>::load;
    it.unload = &Slot<T>::unload;
    it.kind = RK_CLASS;
    it.classes.push_back({Idx<C>::v, {Idx<Bases>::v...}});
    return it;
}

// definitions that do not depend on a policy: the same function can be a
// definition of methods of several policies at once
int free_ckick_cat(const Cat& x) {
    g_seen.code = 804;
    g_seen.n = 1;
    g_seen.most_derived[0] = md(x);
    return 804;
}
int free_ckick_bulldog(const Bulldog& x) {
    g_seen.code = 805;
    g_seen.n = 1;
    g_seen.most_derived[0] = md(x);
    return 805;
}

// ---- the typed world of one policy

template<class P>
struct Lab {
    struct k_kick;
    struct k_meet;
    struct k_own;
    struct k_vkick;
    struct k_pkick;
    struct k_skick;
    struct k_mkick;
    struct k_ckick;
    struct k_rkick;
    struct k_vpkick;
    struct k_wkick;
    struct k_svkick;
    // the remaining parameter flavours: const reference, rvalue reference,
    // virtual_ptr across a virtual base (dynamic cast), shared virtual_ptr,
    // shared_ptr by value across a virtual base
    using ckick = y2::method<k_ckick, int(y2::virtual_<const Animal&>), P>;
    using rkick = y2::method<k_rkick, int(y2::virtual_<Animal&&>), P>;
    using vpkick = y2::method<k_vpkick, int(y2::virtual_ptr<VBase, P>), P>;
    using wkick = y2::method<k_wkick, int(y2::virtual_ptr<std::shared_ptr<Animal>, P>), P>;
    using svkick = y2::method<k_svkick, int(y2::virtual_<std::shared_ptr<VBase>>), P>;
    using mkick = y2::method<k_mkick, int(y2::virtual_<Animal*>), P>;
    using kick = y2::method<k_kick, int(y2::virtual_<Animal&>), P>;
    using meet = y2::method<k_meet, int(y2::virtual_<Animal&>, int, y2::virtual_<Animal&>), P>;
    using own = y2::method<k_own, int(y2::virtual_<Property&>), P>;
    using vkick = y2::method<k_vkick, int(y2::virtual_<VBase&>), P>;
    using pkick = y2::method<k_pkick, int(y2::virtual_ptr<Animal, P>), P>;
    using skick = y2::method<k_skick, int(y2::virtual_<const std::shared_ptr<Animal>&>), P>;

    template<class T>
    static int see1(int code, T& x) {
        g_seen.code = code;
        g_seen.n = 1;
        g_seen.most_derived[0] = md(x);
        return code;
    }

    // definitions (the functions registered with add_function)
    static int kick_dog(Dog& x) {
        return see1(101, x);
    }
    static int kick_bulldog(Bulldog& x) {
        return see1(102, x);
    }
    static int kick_animal(Animal& x) {
        return see1(103, x);
    }
    static int kick_robodog(RoboDog& x) {
        return see1(104, x);
    }
    // a definition container with next
    struct kick_cat_next {
        static inline typename kick::next_type next;
        static int fn(Cat& x) {
            see1(105, x);
            int code = 105;
            const void* me = g_seen.most_derived[0];
            int n = next(x);
            g_seen.next_code = n;
            g_seen.code = code;
            g_seen.most_derived[0] = me;
            return code;
        }
    };
    static int meet_dog_cat(Dog& x, int, Cat& y) {
        g_seen.code = 201;
        g_seen.n = 2;
        g_seen.most_derived[0] = md(x);
        g_seen.most_derived[1] = md(y);
        return 201;
    }
    static int meet_animal_animal(Animal& x, int, Animal& y) {
        g_seen.code = 202;
        g_seen.n = 2;
        g_seen.most_derived[0] = md(x);
        g_seen.most_derived[1] = md(y);
        return 202;
    }
    static int meet_bulldog_animal(Bulldog& x, int, Animal& y) {
        g_seen.code = 203;
        g_seen.n = 2;
        g_seen.most_derived[0] = md(x);
        g_seen.most_derived[1] = md(y);
        return 203;
    }
    static int meet_animal_robodog(Animal& x, int, RoboDog& y) {
        g_seen.code = 204;
        g_seen.n = 2;
        g_seen.most_derived[0] = md(x);
        g_seen.most_derived[1] = md(y);
        return 204;
    }
    static int own_robot(Robot& x) {
        return see1(301, x);
    }
    static int own_robodog(RoboDog& x) {
        return see1(302, x);
    }
    static int own_property(Property& x) {
        return see1(303, x);
    }
    static int vkick_vl(VL& x) {
        return see1(401, x);
    }
    static int vkick_vd(VD& x) {
        return see1(402, x);
    }
    static int vkick_vbase(VBase& x) {
        return see1(403, x);
    }
    // the pointer a definition receives was cast to its class: it must still
    // carry the v-table pointer of the object's dynamic class
    template<class V>
    static void check_vptr(const V& x) {
        const std::uintptr_t* want = nullptr;
        auto& a = *x;
        const std::type_info& t = typeid(a);
        if (t == typeid(Dog))
            want = P::template static_vptr<Dog>;
        else if (t == typeid(Bulldog))
            want = P::template static_vptr<Bulldog>;
        else if (t == typeid(RoboDog))
            want = P::template static_vptr<RoboDog>;
        else if (t == typeid(Cat))
            want = P::template static_vptr<Cat>;
        else if (t == typeid(Animal))
            want = P::template static_vptr<Animal>;
        else if (t == typeid(VBase))
            want = P::template static_vptr<VBase>;
        else if (t == typeid(VL))
            want = P::template static_vptr<VL>;
        else if (t == typeid(VR))
            want = P::template static_vptr<VR>;
        else if (t == typeid(VD))
            want = P::template static_vptr<VD>;
        if (x._vptr() != want)
            g_seen.vptr_bad = 1;
    }
    static int pkick_dog(y2::virtual_ptr<Dog, P> x) {
        int r = see1(501, *x);
        check_vptr(x);
        return r;
    }
    static int pkick_animal(y2::virtual_ptr<Animal, P> x) {
        int r = see1(502, *x);
        check_vptr(x);
        return r;
    }
    static int pkick_robodog(y2::virtual_ptr<RoboDog, P> x) {
        int r = see1(503, *x);
        check_vptr(x);
        return r;
    }
    static int skick_dog(const std::shared_ptr<Dog>& x) {
        return see1(601, *x);
    }
    static int skick_animal(const std::shared_ptr<Animal>& x) {
        return see1(602, *x);
    }
    static int ckick_dog(const Dog& x) {
        return see1(801, x);
    }
    static int ckick_animal(const Animal& x) {
        return see1(802, x);
    }
    static int ckick_robodog(const RoboDog& x) {
        return see1(803, x);
    }
    static int rkick_dog(Dog&& x) {
        return see1(811, x);
    }
    static int rkick_cat(Cat&& x) {
        return see1(812, x);
    }
    static int vpkick_vd(y2::virtual_ptr<VD, P> x) {
        int r = see1(821, *x);
        check_vptr(x);
        return r;
    }
    static int vpkick_vl(y2::virtual_ptr<VL, P> x) {
        int r = see1(822, *x);
        check_vptr(x);
        return r;
    }
    static int vpkick_vbase(y2::virtual_ptr<VBase, P> x) {
        int r = see1(823, *x);
        check_vptr(x);
        return r;
    }
    static int wkick_dog(y2::virtual_ptr<std::shared_ptr<Dog>, P> x) {
        int r = see1(831, *x);
        check_vptr(x);
        return r;
    }
    static int wkick_animal(y2::virtual_ptr<std::shared_ptr<Animal>, P> x) {
        int r = see1(832, *x);
        check_vptr(x);
        return r;
    }
    static int wkick_bulldog(y2::virtual_ptr<std::shared_ptr<Bulldog>, P> x) {
        int r = see1(833, *x);
        check_vptr(x);
        return r;
    }
    // a container without next (add_definition_<C, false>)
    struct vkick_vr_plain {
        static int fn(VR& x) {
            return see1(404, x);
        }
    };
    // a container that gets its next from method::use_next
    struct wkick_cat_next : wkick::template use_next<wkick_cat_next> {
        static int fn(y2::virtual_ptr<std::shared_ptr<Cat>, P> x) {
            see1(834, *x);
            check_vptr(x);
            const void* me = g_seen.most_derived[0];
            int bad = g_seen.vptr_bad;
            int n = wkick_cat_next::next(x);
            g_seen.next_code = n;
            g_seen.code = 834;
            g_seen.n = 1;
            g_seen.most_derived[0] = me;
            g_seen.vptr_bad |= bad;
            return 834;
        }
    };
    static int svkick_vd(std::shared_ptr<VD> x) {
        return see1(841, *x);
    }
    static int svkick_vr(std::shared_ptr<VR> x) {
        return see1(842, *x);
    }

    static std::vector<Item>& items() {
        static std::vector<Item> v = build();
        return v;
    }

    template<class M>
    static Item method_item(const char* name, int index, std::vector<int> vp) {
        Item it;
        it.name = name;
        it.kind = RK_METHOD;
        it.method = index;
        it.vp = vp;
        it.load = [] {
            std::memset((void*)&M::fn, 0, sizeof(M::fn));
            new (&M::fn) M();
            std::memset(M::slots_strides, 0, sizeof(M::slots_strides));
        };
        it.unload = [] {
            M::fn.~M();
            std::memset((void*)&M::fn, 0, sizeof(M::fn));
        };
        it.specs = [] {
            std::vector<const void*> v;
            if (!M::fn.specs.empty())
                for (auto& d : M::fn.specs) {
                    v.push_back(&d);
                    if (v.size() > 64)
                        break;
                }
            return v;
        };
        return it;
    }

    // the function-local definition_info of add_function: found through the
    // method's catalog after construction, destroyed and zeroed on unload as
    // a static of an unloaded library would be
    template<class M, class Adder>
    struct DefSlot {
        static inline y2::detail::definition_info* info = nullptr;
        static void load() {
            y2::detail::definition_info* before = nullptr;
            for (auto& d : M::fn.specs)
                before = &d;
            Slot<Adder>::load();
            // constructing it twice registers once (idempotent)
            {
                Adder again;
                (void)again;
            }
            y2::detail::definition_info* last = nullptr;
            for (auto& d : M::fn.specs)
                last = &d;
            if (last != before)
                info = last;
        }
        static void unload() {
            Slot<Adder>::unload();
            if (info) {
                info->~definition_info();
                std::memset((void*)info, 0, sizeof *info);
            }
        }
    };

    // a second registration statement for a function that is already
    // registered (documented as a no-op): constructing it must change nothing
    template<class Adder>
    static Item dup_item(const char* name, int original_item) {
        Item it;
        it.name = name;
        it.kind = 3;
        it.method = original_item;
        it.load = &Slot<Adder>::load;
        it.unload = &Slot<Adder>::unload;
        return it;
    }

    template<class M, class Adder>
    static Item def_item(const char* name, int method, std::vector<int> vp, int code, bool has_next = false) {
        Item it;
        it.name = name;
        it.kind = RK_DEF;
        it.method = method;
        it.vp = vp;
        it.code = code;
        it.has_next = has_next;
        it.load = &DefSlot<M, Adder>::load;
        it.unload = &DefSlot<M, Adder>::unload;
        it.info = &DefSlot<M, Adder>::info;
        return it;
    }

    static std::vector<Item> build() {
        std::vector<Item> v;
        // class registration menu
        v.push_back(use_item<P, Animal, Dog, Cat, Bulldog, Property, Robot, RoboDog>("use<all>"));
        v.push_back(use_item<P, Animal, Dog>("use<Animal,Dog>"));
        v.push_back(use_item<P, Dog, Bulldog>("use<Dog,Bulldog>"));
        v.push_back(use_item<P, Animal, Cat>("use<Animal,Cat>"));
        v.push_back(use_item<P, Property, Robot>("use<Property,Robot>"));
        v.push_back(use_item<P, Dog, Property, RoboDog>("use<Dog,Property,RoboDog>"));
        v.push_back(decl_item<P, Animal>("decl<Animal>"));
        v.push_back(decl_item<P, Dog, Animal>("decl<Dog,Animal>"));
        v.push_back(decl_item<P, Bulldog, Dog>("decl<Bulldog,Dog>"));
        v.push_back(decl_item<P, Bulldog, Dog, Animal>("decl<Bulldog,Dog,Animal>"));
        v.push_back(decl_item<P, Cat, Animal>("decl<Cat,Animal>"));
        v.push_back(decl_item<P, Property>("decl<Property>"));
        v.push_back(decl_item<P, Robot, Property>("decl<Robot,Property>"));
        v.push_back(decl_item<P, RoboDog, Dog, Property>("decl<RoboDog,Dog,Property>"));
        v.push_back(decl_item<P, RoboDog, Property, Dog, Animal>("decl<RoboDog,Property,Dog,Animal>"));
        v.push_back(use_item<P, VBase, VL, VR, VD>("use<VBase,VL,VR,VD>"));
        v.push_back(decl_item<P, VBase>("decl<VBase>"));
        v.push_back(decl_item<P, VL, VBase>("decl<VL,VBase>"));
        v.push_back(decl_item<P, VR, VBase>("decl<VR,VBase>"));
        v.push_back(decl_item<P, VD, VL, VR>("decl<VD,VL,VR>"));
        // direct bases spread over several statements, base lists not nested
        v.push_back(decl_item<P, RoboDog, Dog>("decl<RoboDog,Dog>"));
        v.push_back(decl_item<P, RoboDog, Property>("decl<RoboDog,Property>"));
        v.push_back(decl_item<P, VD, VL>("decl<VD,VL>"));
        v.push_back(decl_item<P, VD, VR>("decl<VD,VR>"));
        v.push_back(use_item<P, Animal, Bulldog>("use<Animal,Bulldog>"));
        // methods
        v.push_back(method_item<kick>("kick", 0, {cAnimal}));
        v.push_back(method_item<meet>("meet", 1, {cAnimal, cAnimal}));
        v.push_back(method_item<own>("own", 2, {cProperty}));
        v.push_back(method_item<vkick>("vkick", 3, {cVBase}));
        v.push_back(method_item<pkick>("pkick", 4, {cAnimal}));
        v.push_back(method_item<skick>("skick", 5, {cAnimal}));
        v.push_back(method_item<mkick>("mkick", 6, {cAnimal}));
        v.push_back(method_item<ckick>("ckick", 7, {cAnimal}));
        v.push_back(method_item<rkick>("rkick", 8, {cAnimal}));
        v.push_back(method_item<vpkick>("vpkick", 9, {cVBase}));
        v.push_back(method_item<wkick>("wkick", 10, {cAnimal}));
        v.push_back(method_item<svkick>("svkick", 11, {cVBase}));
        // definitions
        v.push_back(def_item<kick, typename kick::template add_function<kick_dog>>("kick(Dog)", 0, {cDog}, 101));
        v.push_back(def_item<kick, typename kick::template add_function<kick_bulldog>>("kick(Bulldog)", 0, {cBulldog}, 102));
        v.push_back(def_item<kick, typename kick::template add_function<kick_animal>>("kick(Animal)", 0, {cAnimal}, 103));
        v.push_back(def_item<kick, typename kick::template add_function<kick_robodog>>("kick(RoboDog)", 0, {cRoboDog}, 104));
        v.push_back(def_item<kick, typename kick::template add_definition<kick_cat_next>>("kick(Cat)+next", 0, {cCat}, 105, true));
        {
            // the container's next pointer is a static of the unloaded image
            static void (*inner)() = v.back().unload;
            v.back().unload = [] {
                inner();
                kick_cat_next::next = nullptr;
            };
        }
        v.push_back(def_item<meet, typename meet::template add_function<meet_dog_cat>>("meet(Dog,Cat)", 1, {cDog, cCat}, 201));
        v.push_back(def_item<meet, typename meet::template add_function<meet_animal_animal>>("meet(Animal,Animal)", 1, {cAnimal, cAnimal}, 202));
        v.push_back(def_item<meet, typename meet::template add_function<meet_bulldog_animal>>("meet(Bulldog,Animal)", 1, {cBulldog, cAnimal}, 203));
        v.push_back(def_item<meet, typename meet::template add_function<meet_animal_robodog>>("meet(Animal,RoboDog)", 1, {cAnimal, cRoboDog}, 204));
        v.push_back(def_item<own, typename own::template add_function<own_robot>>("own(Robot)", 2, {cRobot}, 301));
        v.push_back(def_item<own, typename own::template add_function<own_robodog>>("own(RoboDog)", 2, {cRoboDog}, 302));
        v.push_back(def_item<own, typename own::template add_function<own_property>>("own(Property)", 2, {cProperty}, 303));
        v.push_back(def_item<vkick, typename vkick::template add_function<vkick_vl>>("vkick(VL)", 3, {cVL}, 401));
        v.push_back(def_item<vkick, typename vkick::template add_function<vkick_vd>>("vkick(VD)", 3, {cVD}, 402));
        v.push_back(def_item<vkick, typename vkick::template add_function<vkick_vbase>>("vkick(VBase)", 3, {cVBase}, 403));
        v.push_back(def_item<pkick, typename pkick::template add_function<pkick_dog>>("pkick(Dog)", 4, {cDog}, 501));
        v.push_back(def_item<pkick, typename pkick::template add_function<pkick_animal>>("pkick(Animal)", 4, {cAnimal}, 502));
        v.push_back(def_item<pkick, typename pkick::template add_function<pkick_robodog>>("pkick(RoboDog)", 4, {cRoboDog}, 503));
        v.push_back(def_item<skick, typename skick::template add_function<skick_dog>>("skick(Dog)", 5, {cDog}, 601));
        v.push_back(def_item<skick, typename skick::template add_function<skick_animal>>("skick(Animal)", 5, {cAnimal}, 602));
        v.push_back(def_item<mkick, typename mkick::template add_member_function<&Dog::member_kick>>("mkick(Dog::member_kick)", 6, {cDog}, 701));
        v.push_back(def_item<mkick, typename mkick::template add_member_function<&Bulldog::member_kick_bulldog>>("mkick(Bulldog::member_kick_bulldog)", 6, {cBulldog}, 702));
        v.push_back(def_item<ckick, typename ckick::template add_function<ckick_dog>>("ckick(Dog)", 7, {cDog}, 801));
        v.push_back(def_item<ckick, typename ckick::template add_function<ckick_animal>>("ckick(Animal)", 7, {cAnimal}, 802));
        v.push_back(def_item<ckick, typename ckick::template add_function<ckick_robodog>>("ckick(RoboDog)", 7, {cRoboDog}, 803));
        v.push_back(def_item<rkick, typename rkick::template add_function<rkick_dog>>("rkick(Dog)", 8, {cDog}, 811));
        v.push_back(def_item<rkick, typename rkick::template add_function<rkick_cat>>("rkick(Cat)", 8, {cCat}, 812));
        v.push_back(def_item<vpkick, typename vpkick::template add_function<vpkick_vd>>("vpkick(VD)", 9, {cVD}, 821));
        v.push_back(def_item<vpkick, typename vpkick::template add_function<vpkick_vl>>("vpkick(VL)", 9, {cVL}, 822));
        v.push_back(def_item<vpkick, typename vpkick::template add_function<vpkick_vbase>>("vpkick(VBase)", 9, {cVBase}, 823));
        v.push_back(def_item<wkick, typename wkick::template add_function<wkick_dog>>("wkick(Dog)", 10, {cDog}, 831));
        v.push_back(def_item<wkick, typename wkick::template add_function<wkick_animal>>("wkick(Animal)", 10, {cAnimal}, 832));
        v.push_back(def_item<wkick, typename wkick::template add_function<wkick_bulldog>>("wkick(Bulldog)", 10, {cBulldog}, 833));
        v.push_back(def_item<svkick, typename svkick::template add_function<svkick_vd>>("svkick(VD)", 11, {cVD}, 841));
        v.push_back(def_item<svkick, typename svkick::template add_function<svkick_vr>>("svkick(VR)", 11, {cVR}, 842));
        v.push_back(def_item<ckick, typename ckick::template add_function<free_ckick_cat>>("ckick(Cat), policy-independent function", 7, {cCat}, 804));
        v.push_back(def_item<ckick, typename ckick::template add_function<free_ckick_bulldog>>("ckick(Bulldog), policy-independent function", 7, {cBulldog}, 805));
        v.push_back(def_item<vkick, typename vkick::template add_definition<vkick_vr_plain>>("vkick(VR), container without next", 3, {cVR}, 404));
        v.push_back(def_item<wkick, typename wkick::template add_definition<wkick_cat_next>>("wkick(Cat)+use_next", 10, {cCat}, 834, true));
        {
            static void (*inner2)() = v.back().unload;
            v.back().unload = [] {
                inner2();
                wkick_cat_next::next = nullptr;
            };
        }
        // kick(Cat)+next registered again, this time without naming its next
        int original = -1;
        for (int i = 0; i < (int)v.size(); ++i)
            if (v[i].code == 105)
                original = i;
        v.push_back(dup_item<typename kick::template add_function<kick_cat_next::fn>>("kick(Cat) again, add_function without next", original));
        return v;
    }

    // objects
    struct Objects {
        Dog dog;
        Cat cat;
        Bulldog bulldog;
        Animal animal;
        Property property;
        Robot robot;
        RoboDog robodog;
        VBase vbase;
        VL vl;
        VR vr;
        VD vd;
        std::shared_ptr<Animal> s_animal = std::make_shared<Animal>();
        std::shared_ptr<Animal> s_dog = std::make_shared<Dog>();
        std::shared_ptr<Animal> s_cat = std::make_shared<Cat>();
        std::shared_ptr<Animal> s_bulldog = std::make_shared<Bulldog>();
        std::shared_ptr<Animal> s_robodog = std::make_shared<RoboDog>();
        std::shared_ptr<VBase> s_vbase = std::make_shared<VBase>();
        std::shared_ptr<VBase> s_vl = std::make_shared<VL>();
        std::shared_ptr<VBase> s_vr = std::make_shared<VR>();
        std::shared_ptr<VBase> s_vd = std::make_shared<VD>();
    };
    static Objects& objs() {
        static Objects* o = new Objects;
        return *o;
    }
    static Animal* as_animal(int c) {
        auto& o = objs();
        switch (c) {
        case cAnimal:
            return &o.animal;
        case cDog:
            return &o.dog;
        case cCat:
            return &o.cat;
        case cBulldog:
            return &o.bulldog;
        case cRoboDog:
            return &o.robodog;
        }
        return nullptr;
    }
    static const std::shared_ptr<Animal>* as_shared_animal(int c) {
        auto& o = objs();
        switch (c) {
        case cAnimal:
            return &o.s_animal;
        case cDog:
            return &o.s_dog;
        case cCat:
            return &o.s_cat;
        case cBulldog:
            return &o.s_bulldog;
        case cRoboDog:
            return &o.s_robodog;
        }
        return nullptr;
    }
    static Property* as_property(int c) {
        auto& o = objs();
        switch (c) {
        case cProperty:
            return &o.property;
        case cRobot:
            return &o.robot;
        case cRoboDog:
            return &o.robodog;
        }
        return nullptr;
    }
    static VBase* as_vbase(int c) {
        auto& o = objs();
        switch (c) {
        case cVBase:
            return &o.vbase;
        case cVL:
            return &o.vl;
        case cVR:
            return &o.vr;
        case cVD:
            return &o.vd;
        }
        return nullptr;
    }

    static const std::shared_ptr<VBase>* as_shared_vbase(int c) {
        auto& o = objs();
        switch (c) {
        case cVBase:
            return &o.s_vbase;
        case cVL:
            return &o.s_vl;
        case cVR:
            return &o.s_vr;
        case cVD:
            return &o.s_vd;
        }
        return nullptr;
    }

    struct CallRes {
        bool threw = false;
        int alt = 0, status = 0;
        int ret = 0;
        Seen seen;
        const void* expect_md[2] = {};
        int handler_calls = 0;
    };

    // the real call of method `mi` with objects of the given classes
    static CallRes call(int mi, const std::vector<int>& tuple, int route) {
        CallRes r;
        g_seen = Seen();
        g_tw_handler_calls = 0;
        try {
            switch (mi) {
            case 0: {
                Animal* a = as_animal(tuple[0]);
                r.expect_md[0] = md(*a);
                r.ret = kick::fn(*a);
                break;
            }
            case 1: {
                Animal* a = as_animal(tuple[0]);
                Animal* b = as_animal(tuple[1]);
                r.expect_md[0] = md(*a);
                r.expect_md[1] = md(*b);
                r.ret = meet::fn(*a, 42, *b);
                break;
            }
            case 2: {
                Property* p = as_property(tuple[0]);
                r.expect_md[0] = md(*p);
                r.ret = own::fn(*p);
                break;
            }
            case 3: {
                VBase* p = as_vbase(tuple[0]);
                r.expect_md[0] = md(*p);
                r.ret = vkick::fn(*p);
                break;
            }
            case 4: {
                Animal* a = as_animal(tuple[0]);
                r.expect_md[0] = md(*a);
                if (route == 0) {
                    r.ret = pkick::fn(y2::virtual_ptr<Animal, P>(*a));
                } else if (tuple[0] == cDog) {
                    y2::virtual_ptr<Dog, P> typed(objs().dog);
                    r.ret = pkick::fn(typed);
                } else if (tuple[0] == cRoboDog) {
                    auto typed = y2::virtual_ptr<RoboDog, P>::final(objs().robodog);
                    r.ret = pkick::fn(typed);
                } else {
                    r.ret = pkick::fn(y2::virtual_ptr<Animal, P>(*a));
                }
                if (route == 1) {
                    // pointers to const objects reach the same v-tables
                    Seen keep = g_seen;
                    try {
                        const Animal& ca = *a;
                        y2::virtual_ptr<const Animal, P> p1(ca);
                        check_vptr(p1);
                        auto& sa = *as_shared_animal(tuple[0]);
                        std::shared_ptr<const Animal> sca = sa;
                        y2::virtual_ptr<std::shared_ptr<const Animal>, P> p2(sca);
                        check_vptr(p2);
                        if (tuple[0] == cDog) {
                            const Dog& cd = objs().dog;
                            y2::virtual_ptr<const Dog, P> p3(cd);
                            check_vptr(p3);
                            y2::virtual_ptr<const Animal, P> p4(p3);
                            check_vptr(p4);
                            std::shared_ptr<const Dog> scd =
                                std::static_pointer_cast<const Dog>(sa);
                            y2::virtual_ptr<std::shared_ptr<const Dog>, P> p5(scd);
                            check_vptr(p5);
                            y2::virtual_ptr<std::shared_ptr<const Animal>, P> p6(scd);
                            check_vptr(p6);
                            y2::virtual_ptr<std::shared_ptr<const Animal>, P> p7(p5);
                            check_vptr(p7);
                        }
                        // assignment over a pointer to an object of another
                        // class, from lvalues and rvalues of the same and of
                        // other static types
                        {
                            Animal& base_obj = objs().animal;
                            Animal& this_obj = *a;
                            y2::virtual_ptr<Animal, P> q(base_obj);
                            y2::virtual_ptr<Animal, P> same(this_obj);
                            q = same;
                            check_vptr(q);
                            q = y2::virtual_ptr<Animal, P>(base_obj);
                            check_vptr(q);
                            q = y2::virtual_ptr<Animal, P>(this_obj);
                            check_vptr(q);
                            std::shared_ptr<Animal> sb = objs().s_animal;
                            y2::virtual_ptr<std::shared_ptr<Animal>, P> sq(sb);
                            y2::virtual_ptr<std::shared_ptr<Animal>, P> ssame(sa);
                            sq = ssame;
                            check_vptr(sq);
                            sq = y2::virtual_ptr<std::shared_ptr<Animal>, P>(sb);
                            check_vptr(sq);
                            sq = std::move(ssame);
                            check_vptr(sq);
                            if (tuple[0] == cDog) {
                                y2::virtual_ptr<Dog, P> typed(objs().dog);
                                q = y2::virtual_ptr<Animal, P>(base_obj);
                                q = typed;
                                check_vptr(q);
                                q = y2::virtual_ptr<Animal, P>(base_obj);
                                q = y2::virtual_ptr<Dog, P>(objs().dog);
                                check_vptr(q);
                                q = y2::virtual_ptr<Animal, P>(base_obj);
                                q = std::move(typed);
                                check_vptr(q);
                                std::shared_ptr<Dog> sd = std::static_pointer_cast<Dog>(sa);
                                y2::virtual_ptr<std::shared_ptr<Dog>, P> styped(sd);
                                sq = y2::virtual_ptr<std::shared_ptr<Animal>, P>(sb);
                                sq = styped;
                                check_vptr(sq);
                                sq = y2::virtual_ptr<std::shared_ptr<Animal>, P>(sb);
                                sq = std::move(styped);
                                check_vptr(sq);
                            }
                            if (tuple[0] == cBulldog) {
                                sq = y2::virtual_ptr<std::shared_ptr<Animal>, P>(sb);
                                sq = y2::make_virtual_shared<Bulldog, P>();
                                check_vptr(sq);
                            }
                        }
                    } catch (TwThrow&) {
                        g_seen.vptr_bad = 1;
                    }
                    keep.vptr_bad = g_seen.vptr_bad;
                    g_seen = keep;
                }
                break;
            }
            case 5: {
                auto sp = as_shared_animal(tuple[0]);
                r.expect_md[0] = md(**sp);
                r.ret = skick::fn(*sp);
                break;
            }
            case 6: {
                Animal* a = as_animal(tuple[0]);
                r.expect_md[0] = md(*a);
                Dog::g_member_this = nullptr;
                r.ret = mkick::fn(a);
                // the member function ran on the very object
                g_seen.code = r.ret;
                g_seen.n = 1;
                g_seen.most_derived[0] = Dog::g_member_this
                    ? dynamic_cast<const void*>(static_cast<const Dog*>(Dog::g_member_this))
                    : nullptr;
                break;
            }
            case 7: {
                const Animal& a = *as_animal(tuple[0]);
                r.expect_md[0] = md(a);
                r.ret = ckick::fn(a);
                break;
            }
            case 8: {
                Animal* a = as_animal(tuple[0]);
                r.expect_md[0] = md(*a);
                r.ret = rkick::fn(std::move(*a));
                break;
            }
            case 9: {
                VBase* p = as_vbase(tuple[0]);
                r.expect_md[0] = md(*p);
                if (route == 1 && tuple[0] == cVD) {
                    y2::virtual_ptr<VD, P> typed(objs().vd);
                    r.ret = vpkick::fn(typed);
                } else if (route == 1 && tuple[0] == cVL) {
                    auto typed = y2::virtual_ptr<VL, P>::final(objs().vl);
                    r.ret = vpkick::fn(typed);
                } else {
                    r.ret = vpkick::fn(y2::virtual_ptr<VBase, P>(*p));
                }
                break;
            }
            case 10: {
                auto& sp = *as_shared_animal(tuple[0]);
                r.expect_md[0] = md(*sp);
                if (route == 1 && tuple[0] == cDog) {
                    std::shared_ptr<Dog> sd = std::static_pointer_cast<Dog>(sp);
                    y2::virtual_ptr<std::shared_ptr<Dog>, P> typed(sd);
                    r.ret = wkick::fn(typed);
                } else if (route == 1 && tuple[0] == cBulldog) {
                    auto fresh = y2::make_virtual_shared<Bulldog, P>();
                    r.expect_md[0] = md(*fresh);
                    r.ret = wkick::fn(fresh);
                } else if (route == 1 && tuple[0] == cCat) {
                    auto typed = y2::virtual_ptr<std::shared_ptr<Cat>, P>::final(
                        std::static_pointer_cast<Cat>(sp));
                    r.ret = wkick::fn(typed);
                } else {
                    r.ret = wkick::fn(y2::virtual_ptr<std::shared_ptr<Animal>, P>(sp));
                }
                break;
            }
            case 11: {
                std::shared_ptr<VBase> sp = *as_shared_vbase(tuple[0]);
                r.expect_md[0] = md(*sp);
                r.ret = svkick::fn(sp);
                break;
            }
            }
        } catch (TwThrow& t) {
            r.threw = true;
            r.alt = t.alt;
            r.status = t.status;
        }
        r.seen = g_seen;
        r.handler_calls = g_tw_handler_calls;
        return r;
    }

};

// ground truth
bool truth_le(int a, int b) {
    static const bool t[NCLS][NCLS] = {
        // A  D  C  B  P  R  RD VB VL VR VD   (a <= b ?)
        {1, 0, 0, 0, 0, 0, 0, 0, 0, 0, 0}, // Animal
        {1, 1, 0, 0, 0, 0, 0, 0, 0, 0, 0}, // Dog
        {1, 0, 1, 0, 0, 0, 0, 0, 0, 0, 0}, // Cat
        {1, 1, 0, 1, 0, 0, 0, 0, 0, 0, 0}, // Bulldog
        {0, 0, 0, 0, 1, 0, 0, 0, 0, 0, 0}, // Property
        {0, 0, 0, 0, 1, 1, 0, 0, 0, 0, 0}, // Robot
        {1, 1, 0, 0, 1, 0, 1, 0, 0, 0, 0}, // RoboDog
        {0, 0, 0, 0, 0, 0, 0, 1, 0, 0, 0}, // VBase
        {0, 0, 0, 0, 0, 0, 0, 1, 1, 0, 0}, // VL
        {0, 0, 0, 0, 0, 0, 0, 1, 0, 1, 0}, // VR
        {0, 0, 0, 0, 0, 0, 0, 1, 1, 1, 1}, // VD
    };
    return t[a][b];
}
static_assert(std::is_base_of_v<Animal, RoboDog> && std::is_base_of_v<Property, RoboDog> && std::is_base_of_v<VBase, VD> && !std::is_base_of_v<Property, Dog>);

using namespace y2::policy;
// tw_dbg, tw_rel: twpols.hpp
struct tw_ind : basic_policy<tw_ind, std_rtti, fast_perfect_hash<tw_ind>, vptr_vector<tw_ind>, basic_indirect_vptr<tw_ind>, vectored_error<tw_ind>> {};
struct tw_ref : debug::rebind<tw_ref> {}; // reference flavour for C10
// custom integer ids, known at registration time / only at update
struct tw_cus : basic_policy<tw_cus, tw_rtti, vptr_vector<tw_cus>, vectored_error<tw_cus>> {};
struct tw_dfr : basic_policy<tw_dfr, tw_rtti_deferred, vptr_vector<tw_dfr>, vectored_error<tw_dfr>> {};
struct tw_dfh : basic_policy<tw_dfh, tw_rtti_deferred, checked_perfect_hash<tw_dfh>, vptr_vector<tw_dfh>, vectored_error<tw_dfh>> {};

// ---- macro world: the keyword macros (register_classes, declare_method,
// define_method with next) on a policy of their own, registered during static
// initialisation as in an ordinary program; checked once per run

namespace macro_world {
struct MAnimal {
    virtual ~MAnimal() {
    }
};
struct MDog : MAnimal {};
struct MBulldog : MDog {};
struct MCat : MAnimal {};
struct mw_policy : y2::policy::debug::rebind<mw_policy> {};

register_classes(MAnimal, MDog, MBulldog, MCat, mw_policy);
declare_method(int, mwkick, (virtual_<MAnimal&>, int), mw_policy);
define_method(int, mwkick, (MDog&, int x)) {
    return 100 + x;
}
define_method(int, mwkick, (MBulldog & d, int x)) {
    return 200 + next(d, x);
}
declare_method(int, mwmeet, (virtual_<MAnimal&>, virtual_<MAnimal&>), mw_policy);
define_method(int, mwmeet, (MDog&, MCat&)) {
    return 1;
}
define_method(int, mwmeet, (MAnimal&, MAnimal&)) {
    return 2;
}

// returns "" or what went wrong
std::string check() {
    mw_policy::error = &tw_handler;
    try {
        y2::update<mw_policy>();
    } catch (TwThrow&) {
        return "update of the macro world reported an error";
    }
    MDog dog;
    MBulldog bulldog;
    MCat cat;
    MAnimal& d = dog;
    MAnimal& b = bulldog;
    MAnimal& c = cat;
    if (mwkick(d, 5) != 105)
        return "define_method(MDog) not reached";
    if (mwkick(b, 5) != 305)
        return "next inside define_method(MBulldog) did not reach MDog's definition";
    bool threw = false;
    try {
        mwkick(c, 5);
    } catch (TwThrow& t) {
        threw = t.alt == EA_RESOLUTION && t.status == 1;
    }
    if (!threw)
        return "mwkick(MCat) did not raise 'no definition'";
    if (mwmeet(d, c) != 1 || mwmeet(b, c) != 1 || mwmeet(c, d) != 2 || mwmeet(c, c) != 2)
        return "two-argument method declared with the macros dispatches wrongly";
    return "";
}
} // namespace macro_world


// ---- construction world: open methods called from the constructor and the
// destructor of an *abstract* base. While a base sub-object is being
// constructed or destroyed the dynamic class of the object is that base, so
// the call dispatches on a registered abstract class: through the hash, the
// abstract class's own v-table and (for the pair method) its row of a
// multi-method table. Registered statically with the keyword macros on a
// checked std_rtti policy of its own; checked once per run after update and,
// under the C13 focus, again after encode / decode in a "consumer process".

namespace ctor_world {
struct CBase {
    virtual ~CBase() {
    }
};
struct CShape;
int cw_probe(CShape& self);
struct CShape : CBase {
    int in_ctor = -1;
    int* dtor_out;
    explicit CShape(int* out) : dtor_out(out) {
        in_ctor = cw_probe(*this);
    }
    ~CShape() override {
        try {
            *dtor_out = cw_probe(*this);
        } catch (TwThrow&) {
            *dtor_out = -2;
        }
    }
    virtual int sides() const = 0;
};
struct CSquare : CShape {
    using CShape::CShape;
    int sides() const override {
        return 4;
    }
};
struct CCircle : CShape {
    using CShape::CShape;
    int sides() const override {
        return 0;
    }
};
static_assert(std::is_abstract_v<CShape>);

register_classes(CBase, CShape, CSquare, CCircle, cw_policy);
declare_method(int, cwname, (virtual_<CBase&>), cw_policy);
define_method(int, cwname, (CBase&)) {
    return 1;
}
define_method(int, cwname, (CShape&)) {
    return 2;
}
define_method(int, cwname, (CSquare&)) {
    return 3;
}
declare_method(int, cwpair, (virtual_<CBase&>, virtual_<CShape&>), cw_policy);
define_method(int, cwpair, (CBase&, CShape&)) {
    return 10;
}
define_method(int, cwpair, (CShape&, CShape&)) {
    return 20;
}
define_method(int, cwpair, (CSquare&, CSquare&)) {
    return 30;
}
using PBase = y2::virtual_ptr<CBase, cw_policy>;
using PShape = y2::virtual_ptr<CShape, cw_policy>;
using PSquare = y2::virtual_ptr<CSquare, cw_policy>;
declare_method(int, cwptr, (PBase), cw_policy);
define_method(int, cwptr, (PBase)) {
    return 4;
}
define_method(int, cwptr, (PShape)) {
    return 5;
}
define_method(int, cwptr, (PSquare)) {
    return 6;
}

// what an object answers about itself: 1000 * cwptr + 100 * cwname + cwpair
int cw_probe(CShape& self) {
    CBase& b = self;
    // from a base reference: the dynamic class is looked up
    y2::virtual_ptr<CBase, cw_policy> p(b);
    return 1000 * cwptr(p) + 100 * cwname(b) + cwpair(b, self);
}

std::string probe_all(const char* when) {
    struct Want {
        int ctor, alive, dtor;
    };
    auto one = [&](auto tag, const char* name, Want w) -> std::string {
        using T = std::remove_pointer_t<decltype(tag)>;
        int dt = -1, ct = -1, alive = -1;
        try {
            T obj(&dt);
            ct = obj.in_ctor;
            alive = cw_probe(obj);
        } catch (TwThrow& t) {
            return std::string(when) + ": a call on a " + name +
                " (under construction or complete) raised error alternative " +
                std::to_string(t.alt);
        }
        if (ct != w.ctor)
            return std::string(when) + ": in the constructor of the abstract base of a " + name +
                " the methods answered " + std::to_string(ct) + ", expected " + std::to_string(w.ctor);
        if (alive != w.alive)
            return std::string(when) + ": a complete " + name + " answered " + std::to_string(alive) +
                ", expected " + std::to_string(w.alive);
        if (dt != w.dtor)
            return std::string(when) + ": in the destructor of the abstract base of a " + name +
                " the methods answered " + std::to_string(dt) + ", expected " + std::to_string(w.dtor);
        return "";
    };
    // during construction / destruction of the CShape sub-object: CShape's
    // definitions (5, 2, 20); complete square: (6, 3, 30); complete circle:
    // CShape's again
    std::string why = one((CSquare*)nullptr, "CSquare", {5220, 6330, 5220});
    if (why.empty())
        why = one((CCircle*)nullptr, "CCircle", {5220, 5220, 5220});
    return why;
}

// returns the property and what went wrong, or ""
std::pair<std::string, std::string> check(bool decode_too) {
    cw_policy::error = &tw_handler;
    std::string encoded;
    try {
        auto comp = y2::update<cw_policy>();
#ifndef YS_NO_GLUE
        if (decode_too)
            encoded = glue_encode<cw_policy>(comp, "P");
#endif
    } catch (TwThrow&) {
        return {"C01", "update of the construction world reported an error"};
    }
    std::string why = probe_all("after update");
    if (!why.empty())
        return {"C01", why};
    if (encoded.empty())
        return {"", ""};
    // a consumer process: nothing published yet, then decode
    EmittedData em;
    why = parse_emitted(encoded, em);
    if (!why.empty())
        return {"C13", "construction world: emitted text malformed: " + why};
    std::vector<std::uintptr_t>().swap(cw_policy::dispatch_data);
    std::vector<const std::uintptr_t*>().swap(cw_policy::vptrs);
    std::vector<y2::type_id>().swap(cw_policy::control);
    cw_policy::hash_mult = cw_policy::hash_shift = cw_policy::hash_length = 0;
    cw_policy::hash_min = cw_policy::hash_max = 0;
    cw_policy::static_vptr<CBase> = nullptr;
    cw_policy::static_vptr<CShape> = nullptr;
    cw_policy::static_vptr<CSquare> = nullptr;
    cw_policy::static_vptr<CCircle> = nullptr;
    DecodeView d;
    std::size_t size = 0;
    unsigned char* block = layout_emitted(em, d, size);
    try {
        y2::decode_dispatch_data<cw_policy>(d);
        why = probe_all("after decode");
    } catch (TwThrow& t) {
        why = "construction world: decode_dispatch_data reported error alternative " +
            std::to_string(t.alt);
    }
    // back to the state of a process that updates (the block goes away)
    cw_policy::static_vptr<CBase> = nullptr;
    cw_policy::static_vptr<CShape> = nullptr;
    cw_policy::static_vptr<CSquare> = nullptr;
    cw_policy::static_vptr<CCircle> = nullptr;
    std::vector<const std::uintptr_t*>().swap(cw_policy::vptrs);
    std::free(block);
    if (!why.empty())
        return {"C13", why};
    return {"", ""};
}
} // namespace ctor_world

// ---- a case: {"policy": name, "events": [["load", k], ["unload", k], ["update"], ["check"]]}

std::string g_tw_focus = "C01";

struct TwViol {
    std::string prop, cls, detail;
};

template<class P>
struct TwExec {
    std::vector<Item>& items = Lab<P>::items();
    std::vector<char> loaded;
    std::vector<int> order; // loaded items in load order
    bool clean = false;
    std::vector<TwViol> viols;
    std::map<std::string, std::string> table; // outcome at the last check
    Hash h;
    std::uint64_t events = 0, calls = 0, updates = 0, loads = 0, unloads = 0;
    bool used_mi = false, used_vb = false, used_history = false;
    std::uint64_t failed_loads = 0, dups = 0;
    std::uint64_t calls_by_method[12] = {}, defs_run_by_method[12] = {};
    std::vector<std::string> trace; // reports and outcome tables, in order
    std::uint64_t unregistered_calls = 0;
    std::uint64_t final_probes = 0;
    std::string encoded; // C13: encode_dispatch_data of the last update
    std::uint64_t offsets_checked = 0;

    static constexpr bool kGenerator =
        std::is_same_v<P, tw_dbg> || std::is_same_v<P, tw_rel>;

    // C12 through the real front-end: the generator's text for the policy
    // against what update installed, method by method, in catalog order
    void check_offsets_text(const std::string& text) {
        std::vector<EmittedOffsets> eo;
        std::string why = parse_offsets(text, eo);
        if (!why.empty())
            return fail("C12", "offsets-text-malformed", why);
        std::size_t i = 0;
        for (auto& m : P::methods) {
            if (i >= eo.size())
                return fail("C12", "offsets-text-missing-method",
                            "write_static_offsets wrote fewer specialisations than the policy has methods");
            auto& o = eo[i++];
            std::size_t k = m.arity();
            std::vector<std::size_t> is, it;
            for (std::size_t j = 0; j < k; ++j)
                is.push_back(m.slots_strides_ptr[j]);
            for (std::size_t j = 1; j < k; ++j)
                it.push_back(m.slots_strides_ptr[k + j - 1]);
            ++offsets_checked;
            if (o.slots != is || o.strides != it)
                return fail("C12", "offsets-differ-from-installed",
                            "generated offsets of " + o.method.substr(0, 120) +
                                " are not the ones update installed (arity " + std::to_string(k) + ")");
        }
        if (i != eo.size())
            fail("C12", "offsets-text-extra-method",
                 "write_static_offsets wrote more specialisations than the policy has methods");
    }

    void check_catalog_sizes(const std::string& when) {
        std::size_t ncls = 0, nmeth = 0;
        for (int k : order) {
            if (items[k].kind == RK_CLASS)
                ncls += items[k].classes.size();
            else if (items[k].kind == RK_METHOD)
                ++nmeth;
        }
        std::size_t real = 0;
        if (!P::classes.empty())
            for (auto& c : P::classes) {
                (void)c;
                if (++real > 400)
                    break;
            }
        if (real != ncls || P::classes.empty() != (ncls == 0))
            fail("C18", "catalog-size", "class catalog has " + std::to_string(real) + " entries, " + std::to_string(ncls) + " are registered, " + when);
        std::size_t realm = 0;
        if (!P::methods.empty())
            for (auto& m : P::methods) {
                (void)m;
                if (++realm > 100)
                    break;
            }
        if (realm != nmeth)
            fail("C18", "catalog-size", "method catalog has " + std::to_string(realm) + " entries, " + std::to_string(nmeth) + " are registered, " + when);
    }

    TwExec() {
        loaded.assign(items.size(), 0);
        P::error = &tw_handler;
        static bool first = true;
        if (first) {
            // the methods registered themselves during static initialisation:
            // take them out, as if their images were not loaded yet
            first = false;
            for (auto& it : items)
                if (it.kind == RK_METHOD)
                    it.unload();
        }
    }

    void fail(const std::string& prop, const std::string& cls, const std::string& d) {
        viols.push_back({prop, cls, d});
    }

    void snapshot(Plan& plan, Registry& reg, std::map<int, int>& code_of_def) {
        plan = Plan();
        plan.w.ncls = NCLS;
        plan.w.abstract.assign(NCLS, 0);
        plan.w.parents.assign(NCLS, {});
        plan.w.ids.assign(NCLS, {1});
        std::map<int, int> method_rec;
        for (int k : order) {
            auto& it = items[k];
            if (it.kind == RK_CLASS) {
                for (auto& cb : it.classes) {
                    Rec r;
                    r.kind = RK_CLASS;
                    r.cls = cb.first;
                    r.bases = cb.second;
                    plan.recs.push_back(r);
                    reg.classes.push_back((int)plan.recs.size() - 1);
                }
            } else if (it.kind == RK_METHOD) {
                Rec r;
                r.kind = RK_METHOD;
                r.slot = it.method;
                r.vp = it.vp;
                plan.recs.push_back(r);
                int ri = (int)plan.recs.size() - 1;
                reg.methods.push_back(ri);
                reg.defs[ri];
                method_rec[it.method] = ri;
            }
        }
        int body = 0;
        for (int k : order) {
            auto& it = items[k];
            if (it.kind != RK_DEF)
                continue;
            Rec r;
            r.kind = RK_DEF;
            r.meth = method_rec[it.method];
            r.vp = it.vp;
            r.body = body++ % MAXBODY;
            plan.recs.push_back(r);
            int ri = (int)plan.recs.size() - 1;
            reg.defs[r.meth].push_back(ri);
            code_of_def[ri] = it.code;
        }
    }

    bool legal_now() {
        Plan plan;
        Registry reg;
        std::map<int, int> cod;
        snapshot(plan, reg, cod);
        Lattice L = make_lattice(plan, reg);
        WfResult wf = well_formed(plan, reg, L);
        if (wf.status != WF_OK)
            return false;
        // every direct-base relationship must appear in some registration:
        // for registered classes the closure of the listed edges is the
        // ground truth, and every base of a registered class is registered
        for (int a = 0; a < NCLS; ++a) {
            if (!L.reg[a])
                continue;
            for (int b = 0; b < NCLS; ++b) {
                if (L.le(a, b) != truth_le(a, b))
                    return false;
                if (truth_le(a, b) && !L.reg[b])
                    return false;
            }
        }
        return defs_covariant(plan, reg, L);
    }

    bool method_loaded(int m) {
        for (int x : order)
            if (items[x].kind == RK_METHOD && items[x].method == m)
                return true;
        return false;
    }

    void run(const std::vector<J>& evs) {
        int n = (int)items.size();
        for (auto& ev : evs) {
            if (ev.a.empty())
                continue;
            std::string op = ev.a[0].s;
            int k = ev.a.size() > 1 ? (int)ev.a[1].i() : -1;
            if (op == "load_fail") {
                // fault: the rtti facet throws during the registration of a
                // class statement; nothing of it may stay registered
                if (k < 0 || k >= n || loaded[k] || items[k].kind != RK_CLASS)
                    continue;
                int when = ev.a.size() > 2 ? (int)ev.a[2].i() : 0;
                g_tw_throw_in = when;
                bool threw = false;
                try {
                    items[k].load();
                } catch (TwRttiThrow&) {
                    threw = true;
                }
                g_tw_throw_in = -1;
                if (!threw) {
                    // the statement made fewer id look-ups: it is registered
                    loaded[k] = 1;
                    order.push_back(k);
                    ++loads;
                } else {
                    ++failed_loads;
                    check_catalog_sizes("after a registration that threw");
                }
                clean = false;
                ++events;
                h.str(op);
                h.u64((std::uint64_t)(k + 1));
                continue;
            }
            if (op == "load") {
                if (k < 0 || k >= n || loaded[k])
                    continue;
                auto& it = items[k];
                if (it.kind == 3) {
                    // only while the original registration is loaded
                    if (it.method < 0 || !loaded[it.method])
                        continue;
                    it.load();
                    loaded[k] = 1;
                    order.push_back(k);
                    ++dups;
                    clean = false;
                    ++events;
                    h.str(op);
                    h.u64((std::uint64_t)(k + 1));
                    continue;
                }
                if (it.kind == RK_DEF && !method_loaded(it.method))
                    continue; // a definition needs its method
                if (it.kind == RK_METHOD && method_loaded(it.method))
                    continue;
                it.load();
                loaded[k] = 1;
                order.push_back(k);
                clean = false;
                ++loads;
            } else if (op == "unload") {
                if (k < 0 || k >= n || !loaded[k])
                    continue;
                auto& it = items[k];
                bool has_dup = false;
                for (int x : order)
                    if (items[x].kind == 3 && items[x].method == k)
                        has_dup = true;
                if (has_dup)
                    continue;
                if (it.kind == RK_METHOD) {
                    bool has_defs = false;
                    for (int x : order)
                        if (items[x].kind == RK_DEF && items[x].method == it.method)
                            has_defs = true;
                    if (has_defs)
                        continue;
                }
                it.unload();
                loaded[k] = 0;
                order.erase(std::find(order.begin(), order.end(), k));
                clean = false;
                ++unloads;
                if (updates)
                    used_history = true;
            } else if (op == "update") {
                if (!legal_now())
                    continue;
                try {
                    auto comp = y2::update<P>();
                    clean = true;
                    ++updates;
#ifndef YS_NO_GLUE
                    if constexpr (kGenerator) {
                        if (g_tw_focus == "C13")
                            encoded = glue_encode<P>(comp, "P");
                        if (g_tw_focus == "C12")
                            check_offsets_text(glue_offsets_policy<P>(updates % 3 == 0));
                    }
#endif
                    trace.push_back("report " + std::to_string(comp.report.cells) + "/" +
                                    std::to_string(comp.report.not_implemented) + "/" +
                                    std::to_string(comp.report.ambiguous));
                } catch (TwThrow& t) {
                    fail("C07", "update-failed",
                         "update of a well-formed typed registry reported error alternative " +
                             std::to_string(t.alt));
                    return;
                }
            } else if (op == "check") {
                if (clean) {
                    check();
                    std::string t = "table";
                    for (auto& kv : table)
                        t += " " + kv.first + "=" + kv.second;
                    trace.push_back(t);
                }
            }
            ++events;
            h.str(op);
            h.u64((std::uint64_t)(k + 1));
        }
    }

    // for every loaded method: its slot and the registered classes an
    // argument of each virtual parameter may have
    std::vector<std::pair<int, std::vector<std::vector<int>>>> callable() {
        Plan plan;
        Registry reg;
        std::map<int, int> code_of_def;
        snapshot(plan, reg, code_of_def);
        Lattice L = make_lattice(plan, reg);
        std::vector<std::pair<int, std::vector<std::vector<int>>>> out;
        for (int mi : reg.methods) {
            auto& m = plan.recs[mi];
            std::vector<std::vector<int>> cand;
            bool ok = true;
            for (int pc : m.vp) {
                std::vector<int> cs;
                for (int cls = 0; cls < NCLS; ++cls)
                    if (L.reg[cls] && L.le(cls, pc))
                        cs.push_back(cls);
                ok = ok && !cs.empty();
                cand.push_back(cs);
            }
            if (ok)
                out.push_back({m.slot, cand});
        }
        return out;
    }

    void check() {
        Plan plan;
        Registry reg;
        std::map<int, int> code_of_def;
        snapshot(plan, reg, code_of_def);
        Lattice L = make_lattice(plan, reg);
        table.clear();
        check_catalog_sizes("at a check");
        // each method's definition catalog: exactly the loaded definitions,
        // once each, in registration order
        for (int k : order) {
            if (items[k].kind != RK_METHOD)
                continue;
            std::vector<const void*> want;
            for (int d : order)
                if (items[d].kind == RK_DEF && items[d].method == items[k].method)
                    want.push_back(*items[d].info);
            if (items[k].specs() != want)
                fail("C18", "catalog-definitions",
                     std::string("definition catalog of ") + items[k].name +
                         " does not enumerate the live definitions in registration order");
        }
        for (int mi : reg.methods) {
            auto& m = plan.recs[mi];
            auto& defs = reg.defs[mi];
            std::vector<std::vector<int>> cand;
            for (int pc : m.vp) {
                std::vector<int> cs;
                for (int cls = 0; cls < NCLS; ++cls)
                    if (L.reg[cls] && L.le(cls, pc))
                        cs.push_back(cls);
                cand.push_back(cs);
            }
            std::vector<std::size_t> idx(cand.size(), 0);
            bool done = false;
            for (auto& cs : cand)
                if (cs.empty())
                    done = true;
            while (!done) {
                std::vector<int> tuple;
                for (std::size_t i = 0; i < cand.size(); ++i)
                    tuple.push_back(cand[i][idx[i]]);
                Res want = dispatch(plan, L, defs, tuple);
                for (int route = 0; route < (m.slot == 4 || m.slot == 9 || m.slot == 10 ? 2 : 1); ++route) {
                    auto r = Lab<P>::call(m.slot, tuple, route);
                    ++calls;
                    if (m.slot >= 0 && m.slot < 12) {
                        ++calls_by_method[m.slot];
                        if (!r.threw)
                            ++defs_run_by_method[m.slot];
                    }
                    std::string key = "m" + std::to_string(m.slot) + "r" + std::to_string(route) + ":" +
                        std::to_string(tuple[0]) + (tuple.size() > 1 ? "," + std::to_string(tuple[1]) : "");
                    std::string where = "method " + std::to_string(m.slot) + " tuple (" + key.substr(key.find(':') + 1) + ")";
                    for (int cls : tuple) {
                        if (cls == cRoboDog)
                            used_mi = true;
                        if (cls == cVD || cls == cVL)
                            used_vb = true;
                    }
                    // the observed outcome, for the differential oracles
                    std::string obs = r.threw
                        ? "E" + std::to_string(r.alt) + "/" + std::to_string(r.status)
                        : "D" + std::to_string(r.seen.code) + "n" + std::to_string(r.seen.next_code);
                    for (int i = 0; i < r.seen.n; ++i)
                        if (r.seen.most_derived[i] != r.expect_md[i])
                            obs += "!obj";
                    if (r.seen.vptr_bad) {
                        obs += "!vptr";
                        fail("C09", "cast-vptr", where + ": the virtual_ptr received by the definition does not hold its class's v-table pointer");
                    }
                    table[key] = obs;
                    if (want.kind == RES_DEF) {
                        int code = code_of_def[want.def];
                        bool calls_next = code == 105 || code == 834;
                        if (r.threw && !calls_next) {
                            fail("C01", "error-for-definition", where + " raised an error instead of running definition " + std::to_string(code));
                            continue;
                        }
                        if (!r.threw && (r.seen.code != code || r.ret != code)) {
                            fail("C01", "wrong-definition", where + " ran definition " + std::to_string(r.seen.code) + " instead of " + std::to_string(code));
                            continue;
                        }
                        for (int i = 0; i < r.seen.n; ++i)
                            if (r.seen.most_derived[i] != r.expect_md[i])
                                fail("C01", "wrong-object", where + ": the definition received another object than the caller passed, position " + std::to_string(i));
                        if (calls_next) {
                            // the container definition calls next
                            Res nx = next_of(plan, L, defs, want.def);
                            if (nx.kind == RES_DEF) {
                                int ncode = code_of_def[nx.def];
                                if (r.threw || r.seen.next_code != ncode)
                                    fail("C03", "next-call", where + ": next ran " + std::to_string(r.seen.next_code) + " instead of " + std::to_string(ncode));
                            } else {
                                int st = nx.kind == RES_NODEF ? 1 : 2;
                                if (!r.threw || r.alt != EA_RESOLUTION || r.status != st)
                                    fail("C03", "next-call", where + ": next did not raise the expected error");
                            }
                        }
                    } else {
                        int st = want.kind == RES_NODEF ? 1 : 2;
                        if (!r.threw || r.alt != EA_RESOLUTION || r.status != st || r.seen.code != 0)
                            fail("C02", "error", where + " did not raise the expected resolution error");
                    }
                }
                std::size_t i = 0;
                for (; i < idx.size(); ++i) {
                    if (++idx[i] < cand[i].size())
                        break;
                    idx[i] = 0;
                }
                if (i == idx.size())
                    done = true;
            }
        }
        // C15 through the real thunks and virtual_ptr constructors: an
        // argument whose class is not registered must be reported by a checked
        // policy before any definition runs (final is outside the property)
        if constexpr (P::template has_facet<runtime_checks> && P::template has_facet<type_hash>) {
            // final with an object of another dynamic type (classes with a
            // virtual destructor here, without one in the synthetic world):
            // method_table_error; with the exact type: accepted
            if (L.reg[cAnimal]) {
                for (int cls : {cAnimal, cDog, cCat, cBulldog, cRoboDog}) {
                    if (!L.reg[cls])
                        continue;
                    Animal& a = *Lab<P>::as_animal(cls);
                    int alt = 0;
                    try {
                        auto p = y2::virtual_ptr<Animal, P>::final(a);
                        (void)p;
                    } catch (TwThrow& t) {
                        alt = t.alt;
                    }
                    ++final_probes;
                    if (cls == cAnimal ? alt != 0 : alt != EA_METHOD_TABLE)
                        fail("C15", cls == cAnimal ? "final-exact-type-reported" : "final-mismatch-not-reported",
                             "virtual_ptr<Animal>::final on an object of class " + std::to_string(cls) +
                                 ": error alternative " + std::to_string(alt));
                }
            }
            for (int mi : reg.methods) {
                auto& m = plan.recs[mi];
                for (std::size_t pos = 0; pos < m.vp.size(); ++pos)
                    for (int cls = 0; cls < NCLS; ++cls) {
                        if (L.reg[cls] || !truth_le(cls, m.vp[pos]))
                            continue;
                        std::vector<int> tuple;
                        bool ok = true;
                        for (std::size_t q = 0; q < m.vp.size(); ++q) {
                            if (q == pos) {
                                tuple.push_back(cls);
                                continue;
                            }
                            int other = -1;
                            for (int c2 = 0; c2 < NCLS && other < 0; ++c2)
                                if (L.reg[c2] && L.le(c2, m.vp[q]))
                                    other = c2;
                            ok = ok && other >= 0;
                            tuple.push_back(other);
                        }
                        if (!ok)
                            continue;
                        bool exact_route = (m.slot == 4 || m.slot == 10) ? cls == cDog
                            : m.slot == 9                               ? cls == cVD
                                                                        : false;
                        for (int route = 0; route < (exact_route ? 2 : 1); ++route) {
                            auto r = Lab<P>::call(m.slot, tuple, route);
                            ++calls;
                            ++unregistered_calls;
                            if (!r.threw || r.alt != EA_UNKNOWN_CLASS || r.seen.code != 0)
                                fail("C15", "not-diagnosed",
                                     "method " + std::to_string(m.slot) + " called with an object of the unregistered class " +
                                         std::to_string(cls) + " at position " + std::to_string(pos) + ", route " + std::to_string(route) +
                                         (r.threw ? ": another error was reported" : ": no error was reported"));
                        }
                    }
            }
        }
    }

    // unload everything, back to the load-time state
    void cleanup() {
        for (int pass = 0; pass < 2; ++pass)
            for (int i = (int)order.size() - 1; i >= 0; --i) {
                int k = order[i];
                if (!loaded[k] || (pass == 0) != (items[k].kind == RK_DEF))
                    continue;
                items[k].unload();
                loaded[k] = 0;
            }
        order.clear();
        std::vector<std::uintptr_t>().swap(P::dispatch_data);
        std::vector<const std::uintptr_t*>().swap(P::vptrs);
        if constexpr (P::template has_facet<indirect_vptr>) {
            std::vector<std::uintptr_t const* const*>().swap(P::indirect_vptrs);
        }
        if constexpr (P::template has_facet<runtime_checks>) {
            std::vector<y2::type_id>().swap(P::control);
        }
        if constexpr (P::template has_facet<type_hash>) {
            P::hash_mult = 0;
            P::hash_shift = 0;
            P::hash_length = 0;
            P::hash_min = 0;
            P::hash_max = 0;
        }
    }
};

// a new process: no class has a v-table pointer yet
template<class P>
void tw_zero_static_vptrs() {
    P::template static_vptr<Animal> = nullptr;
    P::template static_vptr<Dog> = nullptr;
    P::template static_vptr<Cat> = nullptr;
    P::template static_vptr<Bulldog> = nullptr;
    P::template static_vptr<Property> = nullptr;
    P::template static_vptr<Robot> = nullptr;
    P::template static_vptr<RoboDog> = nullptr;
    P::template static_vptr<VBase> = nullptr;
    P::template static_vptr<VL> = nullptr;
    P::template static_vptr<VR> = nullptr;
    P::template static_vptr<VD> = nullptr;
}

template<class P>
MiniOutcome tw_run_t(const J& c) {
    MiniOutcome o;
#ifndef YS_NO_GLUE
    if constexpr (TwExec<P>::kGenerator) {
        glue_new_generator<P>(); // the generator object of this process
    }
#endif
    TwExec<P> ex;
    {
        std::string why = macro_world::check();
        if (!why.empty())
            ex.viols.push_back({why.find("next") != std::string::npos ? "C03" : "C01", "macro-world", why});
    }
    {
        auto why = ctor_world::check(g_tw_focus == "C13");
        if (!why.first.empty())
            ex.viols.push_back({why.first, "construction-world", why.second});
        o.counters["construction_world_checks"] = 1;
    }
    ex.run(c.at("events").a);
    if (g_tw_focus == "C13" && ex.clean && ex.viols.empty())
        ex.check(); // the table of the state that was encoded
    auto hist_table = ex.table;
    std::vector<int> final_order = ex.order;
    bool final_clean = ex.clean;
    ex.cleanup();
    auto viols = ex.viols;
    // C13 through the real front-end: another process holding the same
    // registration objects (constructed again in the same order) decodes the
    // text emitted for the last update instead of updating
    if constexpr (TwExec<P>::kGenerator) {
        if (g_tw_focus == "C13" && final_clean && !ex.encoded.empty()) {
            tw_zero_static_vptrs<P>();
            TwExec<P> consumer;
            std::vector<J> evs;
            for (int k : final_order) {
                J e = J::arr();
                e.push("load");
                e.push(k);
                evs.push_back(e);
            }
            consumer.run(evs);
            EmittedData em;
            std::string why = parse_emitted(ex.encoded, em);
            unsigned char* block = nullptr;
            if (!why.empty())
                viols.push_back({"C13", "emitted-text-malformed", why});
            else if (consumer.order != final_order)
                ; // (cannot happen: the same legal loads in the same order)
            else {
                DecodeView d;
                std::size_t size = 0;
                block = layout_emitted(em, d, size);
                bool ok = true;
                try {
                    y2::decode_dispatch_data<P>(d);
                } catch (TwThrow& t) {
                    ok = false;
                    viols.push_back({"C13", "decode-failed",
                                     "decode_dispatch_data reported error alternative " + std::to_string(t.alt)});
                }
                if (ok) {
                    consumer.clean = true;
                    consumer.check();
                    o.counters["decoded_runs"] = 1;
                    o.counters["decoded_calls"] = consumer.calls;
                    for (auto& kv : hist_table) {
                        auto it = consumer.table.find(kv.first);
                        if (it == consumer.table.end() || it->second != kv.second) {
                            viols.push_back({"C13", "decode-diff",
                                             "after the encoded update " + kv.first + " gives " + kv.second +
                                                 ", after decode_dispatch_data " +
                                                 (it == consumer.table.end() ? std::string("(absent)") : it->second)});
                            break;
                        }
                    }
                    for (auto& v : consumer.viols) {
                        bool inherited = false;
                        for (auto& w : ex.viols)
                            if (w.prop == v.prop && w.cls == v.cls)
                                inherited = true;
                        if (!inherited)
                            viols.push_back({"C13", "decoded-" + v.prop + "-" + v.cls, v.detail});
                    }
                }
            }
            consumer.cleanup();
            tw_zero_static_vptrs<P>();
            std::free(block);
        }
    }
    // differential oracle (C07 / C08): the same methods and definitions with
    // the canonical registration of all classes, in a pristine policy
    if (final_clean && !hist_table.empty()) {
        TwExec<P> fresh;
        std::vector<J> evs;
        auto ev = [&](const char* op, int k) {
            J e = J::arr();
            e.push(op);
            if (k >= 0)
                e.push(k);
            evs.push_back(e);
        };
        ev("load", 0);  // use_classes<all of the first two hierarchies>
        ev("load", 15); // use_classes<VBase, VL, VR, VD>
        for (int k : final_order)
            if (fresh.items[k].kind == RK_METHOD)
                ev("load", k);
        for (int k : final_order)
            if (fresh.items[k].kind == RK_DEF)
                ev("load", k);
        ev("update", -1);
        ev("check", -1);
        fresh.run(evs);
        for (auto& kv : hist_table) {
            auto it = fresh.table.find(kv.first);
            if (it != fresh.table.end() && it->second != kv.second) {
                viols.push_back({"C07", "history-diff",
                                 "after the history " + kv.first + " gives " + kv.second +
                                     ", a fresh canonical registration gives " + it->second});
                viols.push_back({"C08", "presentation-diff",
                                 "with these registration statements " + kv.first + " gives " + kv.second +
                                     ", the canonical registration gives " + it->second});
                break;
            }
        }
        fresh.cleanup();
        o.counters["differential_runs"] = 1;
    }
    // every registration object was destroyed: the catalogs must be empty
    if (!P::classes.empty() || !P::methods.empty()) {
        viols.push_back({"C18", "residue",
                         "a catalog is not empty after every registration object was destroyed"});
        o.poisoned = true;
    }
    // flavour differential (C10): the same history under the stock std_rtti
    // debug policy must give the same outcome table
    if (g_tw_focus == "C10" && !std::is_same_v<P, tw_ref> && final_clean && !hist_table.empty()) {
        TwExec<tw_ref> ref;
        std::vector<J> evs;
        for (auto& ev : c.at("events").a)
            if (!ev.a.empty() && ev.a[0].s != "load_fail")
                evs.push_back(ev);
        bool has_fail = evs.size() != c.at("events").a.size();
        if (!has_fail) {
            ref.run(evs);
            for (auto& kv : hist_table) {
                auto it = ref.table.find(kv.first);
                if (it != ref.table.end() && it->second != kv.second) {
                    viols.push_back({"C10", "flavour-diff",
                                     kv.first + " gives " + kv.second + " under " + c.gets("policy", "") +
                                         " and " + it->second + " under std_rtti"});
                    break;
                }
            }
            o.counters["flavour_differential_runs"] = 1;
        }
        ref.cleanup();
    }
    std::uint64_t others = 0;
    for (auto& v : viols) {
        if (v.prop == g_tw_focus) {
            if (o.key.empty()) {
                o.key = v.prop + "/tw/" + v.cls;
                o.detail = v.detail;
            }
        } else
            ++others;
    }
    o.hash = ex.h.h;
    Hash sg;
    sg.u64(ex.h.h);
    sg.str(c.gets("policy", ""));
    o.signature = sg.h;
    o.nontrivial = ex.calls > 0 && (ex.used_mi || ex.used_vb || ex.used_history);
    o.counters["events"] = ex.events;
    o.counters["calls"] = ex.calls;
    o.counters["calls_with_unregistered_class"] = ex.unregistered_calls;
    {
        static const char* names[12] = {"kick(T&)", "meet(T&,int,T&)", "own(MI base)",
                                        "vkick(virtual base&)", "pkick(virtual_ptr)",
                                        "skick(const shared_ptr&)", "mkick(T*, member fn)",
                                        "ckick(const T&)", "rkick(T&&)",
                                        "vpkick(virtual_ptr, virtual base)",
                                        "wkick(shared virtual_ptr)",
                                        "svkick(shared_ptr by value, virtual base)"};
        for (int m = 0; m < 12; ++m) {
            o.counters[std::string("calls:") + names[m]] = ex.calls_by_method[m];
            o.counters[std::string("definitions_run:") + names[m]] = ex.defs_run_by_method[m];
        }
    }
    o.counters["offsets_methods_checked"] = ex.offsets_checked;
    o.counters["final_probes"] = ex.final_probes;
    o.counters["updates"] = ex.updates;
    o.counters["loads"] = ex.loads;
    o.counters["unloads"] = ex.unloads;
    o.counters["runs_with_multiple_inheritance_objects"] = ex.used_mi;
    o.counters["runs_with_virtual_base_objects"] = ex.used_vb;
    o.counters["runs_with_unload_after_update"] = ex.used_history;
    o.counters["fault:registration_throws"] = ex.failed_loads;
    o.counters["duplicate_registrations"] = ex.dups;
    o.counters["tw_other_property_observations"] = others;
    return o;
}

J tw_gen(std::uint64_t seed, int tier, long) {
    Rng r(seed);
    J c = J::obj();
    static const char* pols[] = {"tw_dbg", "tw_rel", "tw_ind", "tw_cus", "tw_dfr", "tw_dfh"};
    std::string pol = pols[r.below(6)];
    if (g_tw_focus == "C12" || g_tw_focus == "C13")
        pol = pols[r.below(2)]; // the generator needs std_rtti
    c.set("policy", pol);
    bool eager_custom = pol == "tw_cus";
    // which part of the menu this run may use (swarm)
    constexpr int CI_END = 25, M_END = 37; // class items, then methods, then definitions
    int nitems = 77; // the last one is the duplicate registration
    std::vector<int> enabled;
    double p = 0.35 + 0.5 * (r.below(100) / 100.0);
    for (int k = 0; k < nitems; ++k)
        if (r.chance(p))
            enabled.push_back(k);
    J evs = J::arr();
    auto push = [&](const char* op, int k) {
        J e = J::arr();
        e.push(op);
        if (k >= 0)
            e.push(k);
        evs.push(e);
    };
    if (r.chance(0.7)) {
        // guided start: a legal presentation of each hierarchy, methods and
        // definitions over the registered classes, in a shuffled order
        static const std::vector<std::vector<int>> main_pres = {
            {0}, {1, 2, 3, 4, 5}, {6, 7, 8, 10, 11, 12, 13}, {6, 7, 9, 10, 11, 12, 14},
            {0, 7, 13}, {1, 2, 3}, {6, 7, 10}, {1, 3, 4, 5}, {6, 7, 8, 11, 12, 14}, {0, 1, 2, 5},
            {6, 7, 8, 10, 11, 12, 20, 21}, {6, 7, 11, 21, 20}, {1, 24, 2, 3}, {6, 7, 24, 2},
            {1, 2, 4, 20, 21}};
        static const std::vector<std::vector<int>> virt_pres = {
            {15}, {16, 17, 18, 19}, {15, 19}, {}, {16, 17, 18, 22, 23}, {16, 18, 17, 23, 22}};
        std::vector<int> first = main_pres[r.below(main_pres.size())];
        for (int k : virt_pres[r.below(virt_pres.size())])
            first.push_back(k);
        for (int k = CI_END; k < M_END; ++k)
            if (r.chance(0.7))
                first.push_back(k);
        r.shuffle(first);
        for (int k : first)
            push("load", k);
        std::vector<int> defs;
        for (int k = M_END; k < nitems; ++k)
            if (r.chance(0.6))
                defs.push_back(k);
        r.shuffle(defs);
        for (int k : defs)
            push("load", k);
        if (r.chance(0.5))
            push("load", nitems - 1); // the no-op duplicate registration
        push("update", -1);
        push("check", -1);
        // definitions whose classes are not registered keep the registry
        // ill-formed: take some out again and retry
        for (int t = 0; t < 6; ++t) {
            push("unload", M_END + (int)r.below(nitems - M_END));
            push("update", -1);
            push("check", -1);
        }
    }
    int steps = r.range(8, tier ? 120 : 60);
    for (int s = 0; s < steps && !enabled.empty(); ++s) {
        int what = (int)r.below(100);
        J e = J::arr();
        if (eager_custom && what < 6) {
            // a class statement whose registration throws part-way
            e.push("load_fail");
            e.push((int)r.below(CI_END));
            e.push((int)r.below(4));
        } else if (what < 55) {
            e.push("load");
            e.push(r.chance(0.06) ? nitems - 1 : enabled[r.below(enabled.size())]);
        } else if (what < 72) {
            e.push("unload");
            e.push(enabled[r.below(enabled.size())]);
        } else {
            e.push("update");
            evs.push(e);
            e = J::arr();
            e.push("check");
        }
        evs.push(e);
    }
    J e1 = J::arr();
    e1.push("update");
    evs.push(e1);
    J e2 = J::arr();
    e2.push("check");
    evs.push(e2);
    c.set("events", evs);
    return c;
}

MiniOutcome tw_run(const J& c) {
    std::string p = c.gets("policy", "tw_dbg");
    if (p == "tw_rel")
        return tw_run_t<tw_rel>(c);
    if (p == "tw_ind")
        return tw_run_t<tw_ind>(c);
    if (p == "tw_cus")
        return tw_run_t<tw_cus>(c);
    if (p == "tw_dfr")
        return tw_run_t<tw_dfr>(c);
    if (p == "tw_dfh")
        return tw_run_t<tw_dfh>(c);
    return tw_run_t<tw_dbg>(c);
}

std::vector<J> tw_shrinks(const J& c) {
    std::vector<J> out;
    auto& evs = c.at("events").a;
    for (std::size_t chunk = evs.size() / 2; chunk >= 1; chunk /= 2) {
        for (std::size_t i = 0; i + chunk <= evs.size(); i += chunk) {
            J d = c;
            J ne = J::arr();
            for (std::size_t k = 0; k < evs.size(); ++k)
                if (k < i || k >= i + chunk)
                    ne.push(evs[k]);
            d.set("events", ne);
            out.push_back(d);
        }
        if (chunk == 1)
            break;
    }
    return out;
}

// ---- two typed worlds at once (C14): policies P and Q each go through their
// own history, interleaved by the seed; afterwards each history is run again
// alone. Reports, outcome tables and oracle verdicts of a policy must not
// depend on what the other policy did. Definitions that are policy-independent
// functions (free functions, member functions) are shared by both.

struct TwDriverBase {
    virtual ~TwDriverBase() {
    }
    virtual void step(const J& ev) = 0;
    virtual std::vector<std::string> trace() = 0;
    virtual std::vector<std::string> verdicts() = 0;
    virtual std::uint64_t calls() = 0;
    virtual bool cleanup() = 0; // false: residue
    virtual bool clean() = 0;   // the last update covers every registration
    virtual std::vector<std::pair<int, std::vector<std::vector<int>>>> callable() = 0;
    // one real call, summarised: "D<code>n<next>", "E<alt>/<status>", with
    // "!obj" / "!vptr" marks
    virtual std::string call(int method, const std::vector<int>& tuple, int route) = 0;
};

template<class P>
struct TwDriver : TwDriverBase {
    TwExec<P> ex;
    void step(const J& ev) override {
        ex.run({ev});
    }
    std::vector<std::string> trace() override {
        return ex.trace;
    }
    std::vector<std::string> verdicts() override {
        std::vector<std::string> v;
        for (auto& x : ex.viols)
            v.push_back(x.prop + "/" + x.cls);
        return v;
    }
    std::uint64_t calls() override {
        return ex.calls;
    }
    bool cleanup() override {
        ex.cleanup();
        return P::classes.empty() && P::methods.empty();
    }
    bool clean() override {
        return ex.clean;
    }
    std::vector<std::pair<int, std::vector<std::vector<int>>>> callable() override {
        return ex.callable();
    }
    std::string call(int method, const std::vector<int>& tuple, int route) override {
        auto r = Lab<P>::call(method, tuple, route);
        std::string obs = r.threw
            ? "E" + std::to_string(r.alt) + "/" + std::to_string(r.status)
            : "D" + std::to_string(r.seen.code) + "n" + std::to_string(r.seen.next_code) +
                "r" + std::to_string(r.ret);
        for (int i = 0; i < r.seen.n; ++i)
            if (r.seen.most_derived[i] != r.expect_md[i])
                obs += "!obj";
        if (r.seen.vptr_bad)
            obs += "!vptr";
        return obs;
    }
};

std::unique_ptr<TwDriverBase> tw_driver(const std::string& p) {
    if (p == "tw_rel")
        return std::make_unique<TwDriver<tw_rel>>();
    if (p == "tw_ind")
        return std::make_unique<TwDriver<tw_ind>>();
    if (p == "tw_cus")
        return std::make_unique<TwDriver<tw_cus>>();
    if (p == "tw_dfr")
        return std::make_unique<TwDriver<tw_dfr>>();
    if (p == "tw_dfh")
        return std::make_unique<TwDriver<tw_dfh>>();
    if (p == "tw_ref")
        return std::make_unique<TwDriver<tw_ref>>();
    return std::make_unique<TwDriver<tw_dbg>>();
}

J tw2_gen(std::uint64_t seed, int tier, long index) {
    Rng r(seed ^ 0x7722);
    J a = tw_gen(r.next(), tier, index);
    J b = tw_gen(r.next(), tier, index);
    static const char* pols[] = {"tw_dbg", "tw_rel", "tw_ind", "tw_cus", "tw_dfr", "tw_dfh", "tw_ref"};
    std::string pa = pols[r.below(7)], pb = pols[r.below(7)];
    while (pb == pa)
        pb = pols[r.below(7)];
    J c = J::obj();
    J ps = J::arr();
    ps.push(pa);
    ps.push(pb);
    c.set("policies", ps);
    // interleave; load_fail (a custom-rtti fault) only where it applies
    J evs = J::arr();
    std::size_t ia = 0, ib = 0;
    auto& ea = a.at("events").a;
    auto& eb = b.at("events").a;
    // bursts: one policy does several things while the other waits
    while (ia < ea.size() || ib < eb.size()) {
        int who = r.chance(0.5) ? 0 : 1;
        int burst = (int)r.range(1, 8);
        for (int k = 0; k < burst; ++k) {
            auto& src = who ? eb : ea;
            auto& i = who ? ib : ia;
            if (i >= src.size())
                break;
            J ev = src[i++];
            if (!ev.a.empty() && ev.a[0].s == "load_fail" && (who ? pb : pa) != "tw_cus")
                continue;
            J e = J::arr();
            e.push(who);
            e.push(ev);
            evs.push(e);
        }
    }
    c.set("events", evs);
    return c;
}

MiniOutcome tw2_run(const J& c) {
    MiniOutcome o;
    std::string pol[2] = {c.at("policies").a[0].s, c.at("policies").a[1].s};
    if (pol[0] == pol[1]) {
        o.detail = "invalid: one policy";
        return o;
    }
    std::vector<std::string> together[2], verdicts[2];
    std::uint64_t calls = 0;
    Hash h;
    {
        auto d0 = tw_driver(pol[0]);
        auto d1 = tw_driver(pol[1]);
        for (auto& e : c.at("events").a) {
            if (e.a.size() != 2)
                continue;
            int who = (int)e.a[0].i() ? 1 : 0;
            (who ? d1 : d0)->step(e.a[1]);
        }
        together[0] = d0->trace();
        together[1] = d1->trace();
        verdicts[0] = d0->verdicts();
        verdicts[1] = d1->verdicts();
        calls = d0->calls() + d1->calls();
        bool ok0 = d0->cleanup(), ok1 = d1->cleanup();
        if (!ok0 || !ok1)
            o.poisoned = true;
    }
    for (int who = 0; who < 2 && !o.poisoned; ++who) {
        auto d = tw_driver(pol[who]);
        for (auto& e : c.at("events").a)
            if (e.a.size() == 2 && ((int)e.a[0].i() ? 1 : 0) == who)
                d->step(e.a[1]);
        auto alone = d->trace();
        auto valone = d->verdicts();
        if (!d->cleanup())
            o.poisoned = true;
        if (o.key.empty() && (alone != together[who] || valone != verdicts[who])) {
            o.key = "C14/tw2/solo-diff";
            std::string what = "the oracles' verdicts differ";
            for (std::size_t i = 0; i < alone.size() || i < together[who].size(); ++i) {
                std::string x = i < alone.size() ? alone[i] : "(nothing)";
                std::string y = i < together[who].size() ? together[who][i] : "(nothing)";
                if (x != y) {
                    // first differing word
                    std::istringstream sx(x), sy(y);
                    std::string wx, wy;
                    while (true) {
                        bool gx = (bool)(sx >> wx), gy = (bool)(sy >> wy);
                        if (!gx && !gy)
                            break;
                        if (!gx)
                            wx = "(nothing)";
                        if (!gy)
                            wy = "(nothing)";
                        if (wx != wy)
                            break;
                    }
                    what = "step " + std::to_string(i) + ": alone " + wx + ", next to " +
                        pol[1 - who] + " " + wy;
                    break;
                }
            }
            o.detail = "policy " + pol[who] + " behaves differently when " + pol[1 - who] +
                " is registered and updated in the same program: " + what;
        }
        for (auto& t : alone)
            h.str(t);
    }
    for (int who = 0; who < 2; ++who)
        for (auto& t : together[who])
            h.str(t);
    o.hash = h.h;
    Hash sg;
    sg.u64(h.h);
    sg.str(pol[0] + pol[1]);
    o.signature = sg.h;
    o.nontrivial = calls > 0 && !together[0].empty() && !together[1].empty();
    o.counters["events"] = c.at("events").a.size();
    o.counters["calls"] = calls;
    o.counters["runs_where_both_policies_were_updated"] = o.nontrivial;
    return o;
}

} // namespace

MiniEngine tw2_engine() {
    MiniEngine e;
    e.name = "tw2";
    e.prop = "C14";
    e.gen = tw2_gen;
    e.run = tw2_run;
    e.shrinks = tw_shrinks;
    e.summary = [](const J& c) {
        J s = J::obj();
        s.set("policies", c.at("policies"));
        s.set("events", J((unsigned long long)c.at("events").a.size()));
        J head = J::arr();
        for (std::size_t i = 0; i < c.at("events").a.size() && i < 12; ++i)
            head.push(c.at("events").a[i]);
        s.set("first_events", head);
        return s;
    };
    return e;
}

MiniEngine tw_engine(const std::string& prop) {
    MiniEngine e;
    g_tw_focus = prop;
    e.name = "tw";
    e.prop = prop;
    e.gen = tw_gen;
    e.run = tw_run;
    e.shrinks = tw_shrinks;
    return e;
}

} // namespace ys
