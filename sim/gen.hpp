// seed -> plan. Swarm style: the seed first draws a configuration (policies,
// id family, lattice family, presentation style, method shapes, enabled fault
// kinds, history length) and only then the plan.
#pragma once

#include "plan.hpp"

namespace ys {

extern const char* const SLOT_KINDS[NSLOTS];

inline int slot_arity(int slot) {
    int n = 0;
    for (const char* k = SLOT_KINDS[slot]; *k; ++k)
        if (*k != 'I')
            ++n;
    return n;
}

// tier: 0 quick, 1 thorough
Plan generate(const std::string& prop, std::uint64_t seed, int tier);

// which properties have a registry-sim profile
bool has_profile(const std::string& prop);

} // namespace ys
