#include "pols.hpp"
namespace ys {
static WorldT<pol::thr> the_world("thr");
}
