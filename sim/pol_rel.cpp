#include "pols.hpp"
namespace ys {
static WorldT<pol::rel> the_world("rel");
}
