// yosim command line: generate / replay / run (supervised batches with
// minimisation and crash containment).
#include "exec.hpp"
#include "gen.hpp"
#include "mini.hpp"

#include <chrono>
#include <csignal>
#include <cstdio>
#include <cstring>
#include <fcntl.h>
#include <functional>
#include <set>
#include <sys/stat.h>
#include <sys/wait.h>
#include <unistd.h>

extern "C" const char* __asan_default_options();
extern "C" __attribute__((used, visibility("default"))) const char*
__asan_default_options() {
    return "exitcode=77:detect_leaks=0:abort_on_error=0:handle_abort=0:"
           "allocator_may_return_null=1:detect_stack_use_after_return=0";
}
extern "C" __attribute__((used, visibility("default"))) const char*
__ubsan_default_options() {
    return "halt_on_error=1:exitcode=77:print_stacktrace=1";
}

namespace ys {

MiniEngine list_engine();
MiniEngine hash_engine();
MiniEngine tw_engine(const std::string& prop);
MiniEngine tw2_engine();

static double now_s() {
    using namespace std::chrono;
    return duration<double>(steady_clock::now().time_since_epoch()).count();
}

std::uint64_t run_seed(std::uint64_t base, const std::string& prop, long i) {
    std::uint64_t ph = 0;
    for (unsigned char c : prop)
        ph = ph * 131 + c;
    return mix3(base, ph, (std::uint64_t)i);
}

// ---------------------------------------------------------------------------
// fork server ("zygote"): started while the process has not executed any plan
// yet, it runs plans in pristine children on request (C14 solo differential)

struct Zygote {
    pid_t pid = -1;
    int to = -1, from = -1;

    static bool read_all(int fd, void* buf, std::size_t n) {
        char* p = (char*)buf;
        while (n) {
            ssize_t r = read(fd, p, n);
            if (r <= 0)
                return false;
            p += r;
            n -= (std::size_t)r;
        }
        return true;
    }
    static bool write_all(int fd, const void* buf, std::size_t n) {
        const char* p = (const char*)buf;
        while (n) {
            ssize_t r = write(fd, p, n);
            if (r <= 0)
                return false;
            p += r;
            n -= (std::size_t)r;
        }
        return true;
    }

    void start() {
        if (pid > 0)
            return;
        int a[2], b[2];
        if (pipe(a) != 0 || pipe(b) != 0)
            return;
        fflush(stdout);
        pid = fork();
        if (pid != 0) {
            close(a[0]);
            close(b[1]);
            to = a[1];
            from = b[0];
            return;
        }
        // the zygote: never executes a plan itself
        close(a[1]);
        close(b[0]);
        signal(SIGPIPE, SIG_IGN);
        for (;;) {
            std::uint32_t len = 0;
            if (!read_all(a[0], &len, sizeof len))
                _exit(0);
            std::string req(len, 0);
            if (!read_all(a[0], &req[0], len))
                _exit(0);
            int c[2];
            if (pipe(c) != 0)
                _exit(0);
            pid_t w = fork();
            if (w == 0) {
                close(c[0]);
                cpu_alarm(40);
                std::string out = "{}";
                try {
                    Plan p = plan_from_json(jparse(req));
                    ExecOpts o;
                    o.focus = "C14";
                    RunResult r = execute(p, o);
                    J j = J::obj();
                    j.set("status", r.status);
                    J t = J::obj();
                    for (auto& kv : r.tables) {
                        J m = J::obj();
                        for (auto& e : kv.second)
                            m.set(e.first, e.second);
                        t.set(kv.first, m);
                    }
                    j.set("tables", t);
                    out = j.str();
                } catch (std::exception&) {
                }
                write_all(c[1], out.data(), out.size());
                _exit(0);
            }
            close(c[1]);
            std::string resp;
            char tmp[4096];
            ssize_t n;
            while ((n = read(c[0], tmp, sizeof tmp)) > 0)
                resp.append(tmp, (std::size_t)n);
            close(c[0]);
            int st = 0;
            waitpid(w, &st, 0);
            if (!(WIFEXITED(st) && WEXITSTATUS(st) == 0))
                resp = "{}";
            std::uint32_t rl = (std::uint32_t)resp.size();
            if (!write_all(b[1], &rl, sizeof rl) ||
                !write_all(b[1], resp.data(), rl))
                _exit(0);
        }
    }

    bool request(
        const Plan& p,
        std::map<std::string, std::map<std::string, std::string>>& tables) {
        if (pid <= 0)
            return false;
        std::string req = plan_to_json(p).str();
        std::uint32_t len = (std::uint32_t)req.size();
        if (!write_all(to, &len, sizeof len) || !write_all(to, req.data(), len))
            return false;
        std::uint32_t rl = 0;
        if (!read_all(from, &rl, sizeof rl))
            return false;
        std::string resp(rl, 0);
        if (rl && !read_all(from, &resp[0], rl))
            return false;
        try {
            J j = jparse(resp);
            if (!j.has("tables") || j.geti("status", RS_INVALID) == RS_INVALID)
                return false;
            for (auto& kv : j.at("tables").o)
                for (auto& e : kv.second.o)
                    tables[kv.first][e.first] = e.second.s;
            return true;
        } catch (std::exception&) {
            return false;
        }
    }
};

static Zygote g_zygote;

// keys of known findings (known_findings.json, status "known"): a run goes on
// past them; each is still gated, minimised and reported once per worker
static std::set<std::string> g_tolerate;

static ExecOpts opts_for(const std::string& prop) {
    ExecOpts o;
    o.focus = prop;
    o.tolerate = g_tolerate;
    o.watch_isolation = prop == "C14";
    if (prop == "C14")
        o.solo = [](const Plan& p,
                    std::map<std::string, std::map<std::string, std::string>>& t) {
            return g_zygote.request(p, t);
        };
    return o;
}

// the violations a check for `prop` counts
static const Violation* focus_violation(const RunResult& r, const std::string& prop) {
    for (auto& v : r.v)
        if (v.prop == prop)
            return &v;
    return nullptr;
}

// ---------------------------------------------------------------------------
// run one plan in a forked child: crash containment for minimisation and for
// the replay of crashing seeds

struct Probe {
    bool crashed = false;
    int sig = 0;
    int exit_code = 0;
    int status = RS_OK;
    std::string key; // focus violation key, or crash class
    std::string detail;
    std::uint64_t evhash = 0;
    J diag = J::obj();
    std::string stderr_tail;
};

// `prelude`: worlds that the same process went through before (each one
// registered, updated, used and completely unregistered again)
static Probe probe(
    const Plan& plan, const std::string& prop, bool want_stderr = false,
    const std::vector<Plan>* prelude = nullptr) {
    Probe pr;
    int fds[2], efds[2];
    if (pipe(fds) != 0 || pipe(efds) != 0) {
        perror("pipe");
        exit(2);
    }
    fflush(stdout);
    fflush(stderr);
    pid_t pid = fork();
    if (pid < 0) {
        perror("fork");
        exit(2);
    }
    if (pid == 0) {
        close(fds[0]);
        close(efds[0]);
        dup2(efds[1], 2);
        if (prop == "C14" && plan.diff == "solo")
            g_zygote.start(); // this child has not executed any plan yet
        if (prelude)
            for (auto& earlier : *prelude) {
                cpu_alarm(40);
                run_plan(earlier, opts_for(prop));
            }
        cpu_alarm(40);
        RunResult r = run_plan(plan, opts_for(prop));
        J o = J::obj();
        o.set("status", r.status);
        o.set("evhash", J((unsigned long long)r.evhash));
        if (auto v = focus_violation(r, prop)) {
            o.set("key", v->key());
            o.set("detail", v->detail);
            o.set("diag", v->diag);
            o.set("event", v->event);
        } else if (r.status == RS_VIOLATION)
            o.set("status", (int)RS_OK); // only other properties' oracles fired
        if (r.status == RS_INVALID)
            o.set("why", r.invalid_why);
        std::string s = o.str();
        ssize_t w = write(fds[1], s.data(), s.size());
        (void)w;
        _exit(0);
    }
    close(fds[1]);
    close(efds[1]);
    std::string buf, ebuf;
    char tmp[4096];
    ssize_t n;
    // drain both pipes (stderr first is fine: outputs are small)
    fcntl(efds[0], F_SETFL, O_NONBLOCK);
    for (;;) {
        n = read(fds[0], tmp, sizeof tmp);
        if (n > 0)
            buf.append(tmp, (std::size_t)n);
        ssize_t m = read(efds[0], tmp, sizeof tmp);
        if (m > 0 && ebuf.size() < 20000)
            ebuf.append(tmp, (std::size_t)m);
        if (n <= 0)
            break;
    }
    int st = 0;
    waitpid(pid, &st, 0);
    for (;;) {
        ssize_t m = read(efds[0], tmp, sizeof tmp);
        if (m <= 0)
            break;
        if (ebuf.size() < 20000)
            ebuf.append(tmp, (std::size_t)m);
    }
    close(fds[0]);
    close(efds[0]);
    if (want_stderr)
        pr.stderr_tail = ebuf;
    if (WIFSIGNALED(st)) {
        pr.crashed = true;
        pr.sig = WTERMSIG(st);
        pr.status = RS_VIOLATION;
        pr.key = prop + "/crash/signal-" + std::to_string(pr.sig);
        pr.detail = "the simulated process died with signal " +
            std::to_string(pr.sig);
        return pr;
    }
    if (WIFEXITED(st) && WEXITSTATUS(st) != 0) {
        pr.crashed = true;
        pr.exit_code = WEXITSTATUS(st);
        pr.status = RS_VIOLATION;
        pr.key = prop + "/crash/" +
            (pr.exit_code == 77 ? std::string("sanitizer")
                                : "exit-" + std::to_string(pr.exit_code));
        pr.detail = pr.exit_code == 77
            ? "a sanitizer stopped the simulated process"
            : "the simulated process exited with status " +
                std::to_string(pr.exit_code);
        return pr;
    }
    try {
        J o = jparse(buf);
        pr.status = (int)o.geti("status", RS_OK);
        pr.evhash = o.getu("evhash", 0);
        pr.key = o.gets("key", "");
        pr.detail = o.gets("detail", "");
        if (o.has("diag"))
            pr.diag = o.at("diag");
        if (pr.status == RS_INVALID)
            pr.detail = o.gets("why", "");
    } catch (std::exception&) {
        pr.crashed = true;
        pr.status = RS_VIOLATION;
        pr.key = prop + "/crash/no-result";
    }
    return pr;
}

// ---------------------------------------------------------------------------
// minimisation: shrink the plan while the same violation class persists

struct Minimiser {
    std::string prop;
    std::string key;
    int budget = 300;
    int runs = 0;

    bool still(const Plan& p) {
        if (runs >= budget)
            return false;
        ++runs;
        Probe pr = probe(p, prop);
        return pr.status == RS_VIOLATION && pr.key == key;
    }

    static Plan remove_records(const Plan& p, const std::set<int>& drop_in) {
        std::set<int> drop = drop_in;
        // definitions of dropped methods go too
        for (std::size_t i = 0; i < p.recs.size(); ++i)
            if (p.recs[i].kind == RK_DEF && drop.count(p.recs[i].meth))
                drop.insert((int)i);
        std::vector<int> remap(p.recs.size(), -1);
        Plan q = p;
        q.recs.clear();
        for (std::size_t i = 0; i < p.recs.size(); ++i) {
            if (drop.count((int)i))
                continue;
            remap[i] = (int)q.recs.size();
            q.recs.push_back(p.recs[i]);
        }
        for (auto& r : q.recs)
            if (r.kind == RK_DEF)
                r.meth = remap[r.meth];
        auto map_list = [&](std::vector<int>& v) {
            std::vector<int> o;
            for (int x : v)
                if (x >= 0 && x < (int)remap.size() && remap[x] >= 0)
                    o.push_back(remap[x]);
            v = o;
        };
        std::vector<Event> evs;
        for (auto e : q.events) {
            if (e.op == OP_LOAD || e.op == OP_UNLOAD || e.op == OP_RECYCLE) {
                map_list(e.recs);
                if (e.recs.empty())
                    continue;
            }
            if (e.op == OP_CALL || e.op == OP_VP_USE) {
                if (e.meth < 0 || e.meth >= (int)remap.size() ||
                    remap[e.meth] < 0)
                    continue;
                e.meth = remap[e.meth];
            }
            if (e.op == OP_OFFSETS && e.meth >= 0)
                e.meth = e.meth < (int)remap.size() ? remap[e.meth] : -1;
            evs.push_back(e);
        }
        q.events = evs;
        for (auto& o : q.orders)
            map_list(o);
        return q;
    }

    static Plan drop_class(const Plan& p, int c) {
        std::set<int> drop;
        Plan q = p;
        for (std::size_t i = 0; i < q.recs.size(); ++i) {
            auto& r = q.recs[i];
            if (r.kind == RK_CLASS) {
                if (r.cls == c)
                    drop.insert((int)i);
                r.bases.erase(
                    std::remove(r.bases.begin(), r.bases.end(), c),
                    r.bases.end());
            } else if (std::find(r.vp.begin(), r.vp.end(), c) != r.vp.end())
                drop.insert((int)i);
        }
        // reconnect: children of c inherit its parents in the ground truth
        for (auto& par : q.w.parents) {
            auto it = std::find(par.begin(), par.end(), c);
            if (it != par.end()) {
                par.erase(it);
                for (int g : p.w.parents[c])
                    if (std::find(par.begin(), par.end(), g) == par.end())
                        par.push_back(g);
            }
        }
        std::vector<Event> evs;
        for (auto& e : q.events) {
            bool refs = (e.op == OP_RELOCATE || e.op == OP_VP_MAKE) && e.cls == c;
            if (e.op == OP_CALL || e.op == OP_VP_USE)
                for (int a : e.args)
                    refs = refs || a == c;
            if (!refs)
                evs.push_back(e);
        }
        q.events = evs;
        return remove_records(q, drop);
    }

    static Plan drop_policy(const Plan& p, int pi) {
        std::set<int> drop;
        for (std::size_t i = 0; i < p.recs.size(); ++i)
            if (p.recs[i].pol == pi)
                drop.insert((int)i);
        Plan q = p;
        std::vector<Event> evs;
        for (auto& e : q.events) {
            if (e.pol == pi)
                continue;
            evs.push_back(e);
        }
        q.events = evs;
        q = remove_records(q, drop);
        q.pols.erase(q.pols.begin() + pi);
        for (auto& r : q.recs)
            if (r.pol > pi)
                --r.pol;
        for (auto& e : q.events)
            if (e.pol > pi)
                --e.pol;
        return q;
    }

    Plan run(Plan p) {
        bool progress = true;
        while (progress && runs < budget) {
            progress = false;
            // drop events, large chunks first
            for (std::size_t chunk = std::max<std::size_t>(1, p.events.size() / 2);
                 chunk >= 1; chunk /= 2) {
                for (std::size_t i = 0; i + chunk <= p.events.size();) {
                    Plan q = p;
                    q.events.erase(
                        q.events.begin() + i, q.events.begin() + i + chunk);
                    if (still(q)) {
                        p = q;
                        progress = true;
                    } else
                        i += chunk;
                    if (runs >= budget)
                        break;
                }
                if (chunk == 1)
                    break;
            }
            // drop policies
            for (int pi = (int)p.pols.size() - 1; pi >= 0 && p.pols.size() > 1; --pi) {
                Plan q = drop_policy(p, pi);
                if (still(q)) {
                    p = q;
                    progress = true;
                }
            }
            // drop alternative orders
            for (int i = (int)p.orders.size() - 1; i >= 0 && p.orders.size() > 1; --i) {
                Plan q = p;
                q.orders.erase(q.orders.begin() + i);
                if (still(q)) {
                    p = q;
                    progress = true;
                }
            }
            // drop methods, then definitions, then class records
            for (int kind : {RK_METHOD, RK_DEF, RK_CLASS}) {
                for (int i = (int)p.recs.size() - 1; i >= 0; --i) {
                    if (i >= (int)p.recs.size() || p.recs[i].kind != kind)
                        continue;
                    Plan q = remove_records(p, {i});
                    if (still(q)) {
                        p = q;
                        progress = true;
                    }
                    if (runs >= budget)
                        break;
                }
            }
            // drop whole classes (leaves first)
            for (int c = p.w.ncls - 1; c >= 0; --c) {
                bool used = false;
                for (auto& r : p.recs)
                    used = used || (r.kind == RK_CLASS && r.cls == c);
                if (!used)
                    continue;
                Plan q = drop_class(p, c);
                if (still(q)) {
                    p = q;
                    progress = true;
                }
                if (runs >= budget)
                    break;
            }
            // thin out base lists
            for (std::size_t i = 0; i < p.recs.size() && runs < budget; ++i) {
                if (p.recs[i].kind != RK_CLASS)
                    continue;
                for (int b = (int)p.recs[i].bases.size() - 1; b >= 0; --b) {
                    Plan q = p;
                    q.recs[i].bases.erase(q.recs[i].bases.begin() + b);
                    if (still(q)) {
                        p = q;
                        progress = true;
                    }
                }
            }
            if (p.heap_jitter) {
                Plan q = p;
                q.heap_jitter = 0;
                if (still(q)) {
                    p = q;
                    progress = true;
                }
            }
        }
        return p;
    }
};

// ---------------------------------------------------------------------------

static std::string g_outdir = "/verif/replays";
static std::string g_sigfile;
static bool g_elines = false;

struct Found {
    J json;
};

// full pipeline for a failing seed: determinism gate, minimise, write replay
static J handle_failure(
    const Plan& plan, const std::string& prop, long index, const Probe& first) {
    J out = J::obj();
    out.set("index", J((long long)index));
    out.set("seed", J((unsigned long long)plan.seed));
    out.set("key", first.key);
    out.set("detail", first.detail);
    out.set("diag", first.diag);
    out.set("profile", plan.profile);
    // 1. same seed again: must fail the same way
    Probe again = probe(plan, prop);
    if (again.status != RS_VIOLATION || again.key != first.key ||
        (!again.crashed && again.evhash != first.evhash)) {
        out.set("gate", "nondeterministic");
        return out;
    }
    // 2. minimise
    Minimiser mz;
    mz.prop = prop;
    mz.key = first.key;
    if (first.key.find("signal-27") != std::string::npos)
        mz.budget = 25; // a spinning run costs its whole CPU limit per probe
    Plan small = mz.run(plan);
    out.set("minimise_runs", mz.runs);
    out.set("events_before", (int)plan.events.size());
    out.set("events_after", (int)small.events.size());
    out.set("recs_before", (int)plan.recs.size());
    out.set("recs_after", (int)small.recs.size());
    Probe fin = probe(small, prop, true);
    if (fin.status != RS_VIOLATION || fin.key != first.key) {
        small = plan;
        fin = probe(small, prop, true);
    }
    out.set("detail", fin.detail);
    out.set("diag", fin.diag);
    // 3. write the replay file
    mkdir(g_outdir.c_str(), 0755);
    char name[256];
    snprintf(
        name, sizeof name, "%s/%s-%016llx.json", g_outdir.c_str(), prop.c_str(),
        (unsigned long long)plan.seed);
    J file = plan_to_json(small);
    J viol = J::obj();
    viol.set("property", prop);
    viol.set("key", first.key);
    viol.set("detail", fin.detail);
    viol.set("diag", fin.diag);
    if (!fin.stderr_tail.empty())
        viol.set("stderr", fin.stderr_tail.substr(0, 6000));
    file.set("violation", viol);
    write_file(name, file.str() + "\n");
    out.set("replay", std::string(name));
    out.set("gate", "ok");
    return out;
}

// a run that fails in its batch but not alone: replay the batch up to it in a
// fresh process; if that fails the same way twice, the earlier worlds are part
// of the history. They are thinned out (ddmin over whole worlds) and written
// into the replay file as its prelude.
static J handle_sequence_failure(
    const std::string& prop, int tier, std::uint64_t base, long batch_start, long bad) {
    J out = J::obj();
    if (bad - batch_start > 20000)
        return out;
    std::vector<Plan> pre;
    for (long k = batch_start; k < bad; ++k)
        pre.push_back(generate(prop, run_seed(base, prop, k), tier));
    Plan plan = generate(prop, run_seed(base, prop, bad), tier);
    Probe first = probe(plan, prop, false, &pre);
    if (first.status != RS_VIOLATION)
        return out;
    Probe again = probe(plan, prop, false, &pre);
    out.set("index", J((long long)bad));
    out.set("seed", J((unsigned long long)plan.seed));
    out.set("key", first.key);
    out.set("profile", plan.profile);
    if (again.status != RS_VIOLATION || again.key != first.key ||
        (!again.crashed && again.evhash != first.evhash)) {
        out.set("gate", "nondeterministic");
        out.set("replay", "");
        return out;
    }
    double stop = now_s() + 240;
    int probes = 0;
    std::size_t before = pre.size();
    for (std::size_t chunk = std::max<std::size_t>(1, pre.size() / 2); chunk >= 1;
         chunk /= 2) {
        for (std::size_t i = 0; i + chunk <= pre.size() && now_s() < stop;) {
            std::vector<Plan> q = pre;
            q.erase(q.begin() + (long)i, q.begin() + (long)(i + chunk));
            Probe p = probe(plan, prop, false, &q);
            ++probes;
            if (p.status == RS_VIOLATION && p.key == first.key)
                pre = q;
            else
                i += chunk;
        }
        if (chunk == 1)
            break;
    }
    Probe fin = probe(plan, prop, true, &pre);
    if (fin.status != RS_VIOLATION || fin.key != first.key)
        return J::obj();
    mkdir(g_outdir.c_str(), 0755);
    char name[256];
    snprintf(
        name, sizeof name, "%s/%s-%016llx.json", g_outdir.c_str(), prop.c_str(),
        (unsigned long long)plan.seed);
    J file = plan_to_json(plan);
    J pj = J::arr();
    for (auto& q : pre)
        pj.push(plan_to_json(q));
    file.set("prelude", pj);
    J viol = J::obj();
    viol.set("property", prop);
    viol.set("key", first.key);
    viol.set("detail", fin.detail + " (only after " + std::to_string(pre.size()) +
                 " earlier world(s) in the same process: see prelude)");
    viol.set("diag", fin.diag);
    if (!fin.stderr_tail.empty())
        viol.set("stderr", fin.stderr_tail.substr(0, 6000));
    file.set("violation", viol);
    write_file(name, file.str() + "\n");
    out.set("detail", viol.gets("detail", ""));
    out.set("diag", fin.diag);
    out.set("prelude_before", J((unsigned long long)before));
    out.set("prelude_after", J((unsigned long long)pre.size()));
    out.set("minimise_runs", probes);
    out.set("replay", std::string(name));
    out.set("gate", "ok");
    return out;
}

// child: run seeds [from, to), streaming one line per run
static void child_loop(
    const std::string& prop, int tier, std::uint64_t base, long from, long to,
    double deadline, int wfd) {
    FILE* out = fdopen(wfd, "w");
    if (prop == "C14")
        g_zygote.start(); // before the first run of this process
    Stats total;
    std::set<std::uint64_t> sigs;
    long nontrivial = 0;
    auto flush_stats = [&](long upto) {
        J t = total.json();
        t.set("upto", J((long long)upto));
        t.set("nontrivial_distinct", J((long long)nontrivial));
        fprintf(out, "T %s\n", t.str().c_str());
        fflush(out);
    };
    ExecOpts o = opts_for(prop);
    for (long i = from; i < to; ++i) {
        if ((i - from) % 64 == 0 && now_s() > deadline)
            break;
        std::uint64_t seed = run_seed(base, prop, i);
        fprintf(out, "S %ld %016llx\n", i, (unsigned long long)seed);
        fflush(out);
        Plan plan = generate(prop, seed, tier);
        cpu_alarm(30); // a run that hangs (a cyclic catalog...) is a crash
        RunResult r = run_plan(plan, o);
        cpu_alarm(0);
        total.add(r.st);
        bool fresh_sig = sigs.insert(r.signature).second;
        if (fresh_sig && r.nontrivial)
            ++nontrivial;
        const Violation* fv = focus_violation(r, prop);
        int st = r.status == RS_INVALID ? RS_INVALID : (fv ? RS_VIOLATION : RS_OK);
        int others = 0;
        for (auto& v : r.v)
            if (v.prop != prop)
                ++others;
        fprintf(
            out, "R %ld %d %016llx %016llx %d %d\n", i, st,
            (unsigned long long)r.evhash, (unsigned long long)r.signature,
            (int)(fresh_sig && r.nontrivial), others);
        if (st == RS_INVALID)
            fprintf(out, "I %ld %s\n", i, r.invalid_why.c_str());
        for (auto& v : r.tolerated)
            fprintf(out, "W %ld %s\n", i, v.key().c_str());
        if (others) {
            for (auto& v : r.v)
                if (v.prop != prop) {
                    fprintf(out, "O %ld %s\n", i, v.key().c_str());
                    break;
                }
        }
        if (i < from + 3 || (i - from) % 997 == 0) {
            // a few plans written out as samples
            J s = J::obj();
            bool full = plan.recs.size() <= 12 && plan.events.size() <= 8;
            if (full) // a small plan written out in full
                s = plan_to_json(plan);
            if (!full) {
            s.set("seed", J((unsigned long long)seed));
            s.set("profile", plan.profile);
            s.set("policies", J::arr_of(plan.pols));
            s.set("classes", plan.w.ncls);
            s.set("records", (int)plan.recs.size());
            J ev = J::arr();
            for (auto& e : plan.events)
                ev.push(op_name(e.op));
            s.set("events", ev);
            }
            fprintf(out, "P %s\n", s.str().c_str());
        }
        if (fv) {
            flush_stats(i);
            // hand over to the supervisor, which minimises in forked children
            fprintf(out, "F %ld\n", i);
            fflush(out);
            fclose(out);
            _exit(3);
        }
        if (r.poisoned) {
            // another property's oracle found the process state corrupt:
            // start the next run in a fresh process
            flush_stats(i + 1);
            fprintf(out, "K %ld\n", i);
            fflush(out);
            fclose(out);
            _exit(4);
        }
        if ((i - from) % 256 == 255)
            flush_stats(i + 1);
    }
    flush_stats(to);
    fprintf(out, "D\n");
    fflush(out);
    fclose(out);
    _exit(0);
}

static int cmd_run(
    const std::string& prop, int tier, std::uint64_t base, long from, long to,
    double secs, int max_failures) {
    double deadline = now_s() + secs;
    long i = from;
    Stats total;
    long runs = 0, invalid = 0, nontrivial = 0, others = 0;
    int failures = 0;
    int unreproducible = 0;
    Hash allhash;
    std::set<std::uint64_t> all_sigs;
    std::map<std::string, long> other_keys;
    std::map<std::string, long> known_first, known_count;
    std::set<std::string> known_reported;
    std::vector<std::string> samples;
    while (i < to && now_s() < deadline && failures < max_failures) {
        int fds[2];
        if (pipe(fds) != 0) {
            perror("pipe");
            return 2;
        }
        fflush(stdout);
        long batch_start = i;
        pid_t pid = fork();
        if (pid == 0) {
            close(fds[0]);
            int dn = open("/dev/null", O_WRONLY);
            if (dn >= 0)
                dup2(dn, 2);
            child_loop(prop, tier, base, i, to, deadline, fds[1]);
            _exit(0);
        }
        close(fds[1]);
        FILE* in = fdopen(fds[0], "r");
        char line[1 << 16];
        long started = -1, finished = -1, failed_at = -1;
        Stats child_stats;
        long child_nontrivial = 0;
        bool done = false, restart = false;
        while (fgets(line, sizeof line, in)) {
            if (line[0] == 'S') {
                started = atol(line + 2);
            } else if (line[0] == 'R') {
                long idx;
                int st, nt, oth;
                unsigned long long eh, sg;
                if (sscanf(line, "R %ld %d %llx %llx %d %d", &idx, &st, &eh, &sg, &nt, &oth) == 6) {
                    finished = idx;
                    if (nt)
                        all_sigs.insert(sg);
                    ++runs;
                    if (st == RS_INVALID)
                        ++invalid;
                    others += oth ? 1 : 0;
                    allhash.u64(eh);
                    if (g_elines || getenv("YS_ELINES"))
                        printf("E %ld %016llx\n", idx, eh);
                }
            } else if (line[0] == 'T') {
                try {
                    J t = jparse(line + 2);
                    Stats s;
                    // re-read the cumulative stats of this child
#define G(x) s.x = t.getu(#x, 0)
                    G(events);
                    G(loads);
                    G(unloads);
                    G(updates);
                    G(updates_completed);
                    G(updates_aborted);
                    G(checks);
                    G(tuples);
                    G(calls);
                    G(error_calls);
                    G(next_checked);
                    G(cells_checked);
                    G(ids_checked);
                    G(rejects_checked);
                    G(vp_made);
                    G(vp_used);
                    G(vp_survived_update);
                    G(forks);
                    G(relocations);
                    G(variants);
                    G(hash_failures);
                    G(alloc_failures);
                    G(unknown_class_reports);
                    G(multi_applicable);
                    G(mi_classes);
                    G(ambiguous_cells);
                    G(nodef_cells);
                    G(inconclusive);
#undef G
                    if (t.has("faults_fired"))
                        for (auto& kv : t.at("faults_fired").o)
                            s.faults[kv.first] = kv.second.u64();
                    if (t.has("reach"))
                        for (auto& kv : t.at("reach").o)
                            s.reach[kv.first] = kv.second.u64();
                    child_stats = s;
                    child_nontrivial = (long)t.geti("nontrivial_distinct", 0);
                } catch (std::exception&) {
                }
            } else if (line[0] == 'F') {
                failed_at = atol(line + 2);
            } else if (line[0] == 'I') {
                printf("%s", line);
            } else if (line[0] == 'O') {
                char k[256];
                long idx;
                if (sscanf(line, "O %ld %255s", &idx, k) == 2)
                    ++other_keys[k];
            } else if (line[0] == 'W') {
                char k[256];
                long idx;
                if (sscanf(line, "W %ld %255s", &idx, k) == 2) {
                    ++known_count[k];
                    if (!known_first.count(k))
                        known_first[k] = idx;
                }
            } else if (line[0] == 'P') {
                if (samples.size() < 3) {
                    std::string s(line + 2);
                    while (!s.empty() && s.back() == '\n')
                        s.pop_back();
                    samples.push_back(s);
                }
            } else if (line[0] == 'D') {
                done = true;
            } else if (line[0] == 'K') {
                restart = true;
            }
        }
        fclose(in);
        int st = 0;
        waitpid(pid, &st, 0);
        total.add(child_stats);
        nontrivial += child_nontrivial;
        // a known finding seen for the first time by this worker: the same
        // run again, strict about that key, then gated and minimised as any
        // other failure (the driver decides whether it is listed)
        for (auto& kv : known_first) {
            if (!known_reported.insert(kv.first).second)
                continue;
            auto saved = g_tolerate;
            g_tolerate.erase(kv.first);
            std::uint64_t seed = run_seed(base, prop, kv.second);
            Plan plan = generate(prop, seed, tier);
            Probe first = probe(plan, prop);
            if (first.status == RS_VIOLATION && first.key == kv.first) {
                J f = handle_failure(plan, prop, kv.second, first);
                f.set("tolerated", true);
                printf("V %s\n", f.str().c_str());
                fflush(stdout);
            }
            g_tolerate = saved;
        }
        long bad = -1;
        if (restart && failed_at < 0) {
            i = finished + 1;
            continue;
        }
        if (failed_at >= 0)
            bad = failed_at;
        else if (!done && !(WIFEXITED(st) && WEXITSTATUS(st) == 0) &&
                 started >= 0 && started > finished)
            bad = started; // died inside run `started`
        if (bad >= 0) {
            std::uint64_t seed = run_seed(base, prop, bad);
            Plan plan = generate(prop, seed, tier);
            Probe first = probe(plan, prop);
            if (first.status == RS_VIOLATION) {
                J f = handle_failure(plan, prop, bad, first);
                printf("V %s\n", f.str().c_str());
                ++failures;
            } else if (J f = handle_sequence_failure(prop, tier, base, batch_start, bad);
                       f.has("replay")) {
                // the run fails only after the worlds that the same process
                // went through before it: a longer history, found, gated and
                // minimised as such
                printf("V %s\n", f.str().c_str());
                ++failures;
            } else {
                // the batch died but neither the run alone nor the replayed
                // batch fails. Never a violation by itself; go on in a fresh
                // process and report it at the end
                printf("X %ld unreproducible failure in batch\n", bad);
                fflush(stdout);
                if (++unreproducible > 20)
                    return 2;
            }
            i = bad + 1;
        } else if (done || (WIFEXITED(st) && WEXITSTATUS(st) == 0)) {
            i = finished + 1;
            if (done || finished + 1 >= to)
                break;
            if (now_s() >= deadline)
                break;
        } else {
            printf("X %ld child died outside a run\n", started);
            return 2;
        }
        fflush(stdout);
    }
    J sum = total.json();
    sum.set("runs", J((long long)runs));
    sum.set("invalid_plans", J((long long)invalid));
    sum.set("nontrivial_distinct", J((long long)nontrivial));
    sum.set("runs_with_other_property_observations", J((long long)others));
    J ok = J::obj();
    for (auto& kv : other_keys)
        ok.set(kv.first, J((long long)kv.second));
    sum.set("other_property_observations", ok);
    J kk = J::obj();
    for (auto& kv : known_count)
        kk.set(kv.first, J((long long)kv.second));
    sum.set("known_findings_seen", kk);
    sum.set("failures", failures);
    sum.set("next_index", J((long long)i));
    sum.set("loghash", J((unsigned long long)allhash.h));
    J sm = J::arr();
    for (auto& s : samples)
        sm.push(jparse(s));
    sum.set("samples", sm);
    printf("Z %s\n", sum.str().c_str());
    fflush(stdout);
    if (!g_sigfile.empty()) {
        std::string bin;
        for (auto sgn : all_sigs)
            bin.append(reinterpret_cast<const char*>(&sgn), 8);
        write_file(g_sigfile, bin);
    }
    return failures ? 1 : (unreproducible ? 2 : 0);
}

static int cmd_replay(const std::string& path, bool verbose) {
    J j = jparse(read_file(path));
    if (j.gets("engine", "") == "list")
        return mini_replay(list_engine(), j, verbose);
    if (j.gets("engine", "") == "hash")
        return mini_replay(hash_engine(), j, verbose);
    if (j.gets("engine", "") == "tw")
        return mini_replay(tw_engine(j.gets("prop", "C01")), j, verbose);
    if (j.gets("engine", "") == "tw2")
        return mini_replay(tw2_engine(), j, verbose);
    Plan plan = plan_from_json(j);
    std::string prop = plan.prop;
    std::string want;
    if (j.has("violation"))
        want = j.at("violation").gets("key", "");
    if (j.has("prelude")) {
        std::vector<Plan> pre;
        for (auto& q : j.at("prelude").a)
            pre.push_back(plan_from_json(q));
        Probe pr = probe(plan, prop, true, &pre);
        printf(
            "replay: %s %s (after %zu earlier worlds)\n",
            pr.status == RS_VIOLATION ? pr.key.c_str() : "ok", pr.detail.c_str(),
            pre.size());
        if (verbose && !pr.stderr_tail.empty())
            printf("%s\n", pr.stderr_tail.c_str());
        if (pr.status == RS_VIOLATION && (want.empty() || pr.key == want))
            return 1;
        return pr.status == RS_INVALID ? 3 : 0;
    }
    if (want.find("/crash/") != std::string::npos) {
        Probe pr = probe(plan, prop, true);
        printf(
            "replay: %s %s\n", pr.status == RS_VIOLATION ? pr.key.c_str() : "ok",
            pr.detail.c_str());
        if (verbose && !pr.stderr_tail.empty())
            printf("%s\n", pr.stderr_tail.c_str());
        if (pr.status == RS_VIOLATION && pr.key == want)
            return 1;
        return pr.status == RS_INVALID ? 3 : 0;
    }
    if (prop == "C14" && plan.diff == "solo")
        g_zygote.start(); // nothing has been executed in this process yet
    ExecOpts o = opts_for(prop);
    o.keep_log = verbose;
    RunResult r = run_plan(plan, o);
    if (verbose)
        for (auto& l : r.log)
            printf("  %s\n", l.c_str());
    if (r.status == RS_INVALID) {
        printf("replay: INVALID %s\n", r.invalid_why.c_str());
        return 3;
    }
    int rc = 0;
    for (auto& v : r.v) {
        printf(
            "replay: %s %s %s\n", v.key().c_str(), v.detail.c_str(),
            v.diag.str().c_str());
        if (v.prop == prop && (want.empty() || v.key() == want))
            rc = 1;
    }
    if (r.v.empty())
        printf("replay: ok evhash=%016llx\n", (unsigned long long)r.evhash);
    return rc;
}

} // namespace ys

// addresses (type_info objects under std_rtti, heap) are part of the simulated
// environment: switch address space randomisation off so that one seed is one
// execution in every process
#include <sys/personality.h>
static void no_aslr(char** argv) {
    int p = personality(0xffffffff);
    if (p == -1 || (p & ADDR_NO_RANDOMIZE) || getenv("YS_ASLR_KEPT"))
        return;
    if (personality(p | ADDR_NO_RANDOMIZE) == -1)
        return;
    setenv("YS_ASLR_KEPT", "1", 1); // never loop
    execv("/proc/self/exe", argv);
}

static const char* arg(int argc, char** argv, const char* name, const char* dflt) {
    for (int i = 1; i + 1 < argc; ++i)
        if (!strcmp(argv[i], name))
            return argv[i + 1];
    return dflt;
}
static bool flag(int argc, char** argv, const char* name) {
    for (int i = 1; i < argc; ++i)
        if (!strcmp(argv[i], name))
            return true;
    return false;
}

int main(int argc, char** argv) {
    using namespace ys;
    no_aslr(argv);
    if (argc < 2) {
        fprintf(stderr, "usage: yosim gen|replay|run|policies ...\n");
        return 2;
    }
    std::string cmd = argv[1];
    exec_init();
    int rc = 0;
    try {
        std::string prop = arg(argc, argv, "--prop", "C01");
        int tier = !strcmp(arg(argc, argv, "--tier", "quick"), "thorough");
        std::uint64_t base = strtoull(arg(argc, argv, "--base-seed", "1"), nullptr, 0);
        if (cmd == "policies") {
            for (auto p : all_policies())
                printf("%s\n", p->name.c_str());
        } else if (cmd == "gen") {
            long idx = atol(arg(argc, argv, "--index", "0"));
            std::uint64_t seed = flag(argc, argv, "--seed")
                ? strtoull(arg(argc, argv, "--seed", "1"), nullptr, 0)
                : run_seed(base, prop, idx);
            Plan p = generate(prop, seed, tier);
            printf("%s\n", plan_to_json(p).str().c_str());
        } else if (cmd == "replay") {
            rc = cmd_replay(argv[2], flag(argc, argv, "--log"));
        } else if (cmd == "run") {
            g_outdir = arg(argc, argv, "--out", "/verif/replays");
            g_sigfile = arg(argc, argv, "--sigfile", "");
            {
                std::string t = arg(argc, argv, "--tolerate", "");
                std::size_t b = 0;
                while (b < t.size()) {
                    std::size_t e = t.find(',', b);
                    if (e == std::string::npos)
                        e = t.size();
                    if (e > b)
                        g_tolerate.insert(t.substr(b, e - b));
                    b = e + 1;
                }
            }
            g_elines = flag(argc, argv, "--elines");
            long from = atol(arg(argc, argv, "--from", "0"));
            long to = atol(arg(argc, argv, "--to", "1000"));
            double secs = atof(arg(argc, argv, "--secs", "30"));
            int maxf = atoi(arg(argc, argv, "--max-failures", "3"));
            if (prop == "list")
                rc = mini_run(list_engine(), tier, base, from, to, secs, g_outdir, g_sigfile, maxf);
            else if (prop == "hash")
                rc = mini_run(hash_engine(), tier, base, from, to, secs, g_outdir, g_sigfile, maxf);
            else if (prop == "tw2")
                rc = mini_run(tw2_engine(), tier, base, from, to, secs, g_outdir, g_sigfile, maxf);
            else if (prop == "tw")
                rc = mini_run(tw_engine(arg(argc, argv, "--focus", "C01")), tier, base, from, to, secs, g_outdir, g_sigfile, maxf);
            else
                rc = cmd_run(prop, tier, base, from, to, secs, maxf);
        } else {
            fprintf(stderr, "unknown command\n");
            rc = 2;
        }
    } catch (std::exception& e) {
        fprintf(stderr, "yosim: %s\n", e.what());
        rc = 2;
    }
    fflush(stdout);
    // method objects of the pool are not registered any more: skip static
    // destructors (they would try to remove themselves from empty catalogs)
    _exit(rc);
}
