#include "pols.hpp"
namespace ys {
static WorldT<pol::vec> the_world("vec");
}
