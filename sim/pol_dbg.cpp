#include "pols.hpp"
namespace ys {
static WorldT<pol::dbg> the_world("dbg");
}
