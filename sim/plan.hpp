// The plan: an explicit, serialisable description of one simulated run.
// seed -> plan (gen.cpp) -> execution (exec.cpp). Replay executes the plan, not
// the PRNG, so a minimised plan is still a valid replay file.
#pragma once

#include "util.hpp"

#include <string>
#include <vector>

namespace ys {

constexpr int MAXC = 32;    // class tokens K<0> .. K<31>
constexpr int MAXALIAS = 3; // ids per class
constexpr int MAXBODY = 16; // pooled definition bodies per method slot
constexpr int MAXVP = 16;   // harness-held virtual_ptr slots per policy
constexpr int MAXREC = 512; // records per plan
constexpr int MAXBASES = 48;
constexpr int NSLOTS = 22;  // method pool size

using tid = std::uint64_t;

enum RecKind { RK_CLASS = 0, RK_METHOD = 1, RK_DEF = 2 };

// One registration record: what a class_declaration / method / add_function
// static object would contribute.
struct Rec {
    int kind = RK_CLASS;
    int pol = 0; // index into Plan::pols
    // class record
    int cls = -1;
    int alias = 0;          // which id of the class this record registers
    std::vector<int> bases; // listed bases, as presented (may include self,
                            // duplicates, indirect bases)
    // method record: pool slot + class of each virtual parameter
    int slot = -1;
    // definition record: method record index + body index
    int meth = -1;
    int body = -1;
    int nonext = 0; // definition registered without a next slot
    std::vector<int> vp; // method: parameter classes; definition: its classes
};

struct World {
    int ncls = 0;
    std::vector<std::vector<int>> parents; // ground-truth direct bases
    std::vector<int> abstract;             // 0/1 per class
    std::vector<std::vector<tid>> ids;     // ids[c][alias]
};

enum Op {
    OP_LOAD,
    OP_UNLOAD,
    OP_UPDATE,
    OP_CHECK,
    OP_RELOCATE,
    OP_HANDLER,
    OP_CALL,
    OP_VP_MAKE,
    OP_VP_COPY,
    OP_VP_USE,
    OP_VP_DROP,
    OP_OFFSETS, // C12: run the static-offset generator, "compile" its output
    OP_RESTART, // C13: the process ends; a new one starts with nothing loaded
    OP_DECODE,  // C13: decode the text emitted by the last encoding update
    OP_RECYCLE, // a method registration object destroyed and constructed again
                // in place, while its definitions stay registered
    OP_COUNT
};

inline const char* op_name(int op) {
    static const char* n[] = {"load",    "unload",  "update",  "check",
                              "relocate", "handler", "call",    "vp_make",
                              "vp_copy", "vp_use",  "vp_drop", "offsets",
                              "restart", "decode",  "recycle"};
    return n[op];
}

enum HandlerMode {
    HM_THROW = 0,      // Policy::error (or throw_error facet) throws
    HM_CALL_ERROR = 1, // backward compatible: default error -> call_error
                       // throws
    HM_RETURNS = 2,    // handler records and returns (only under fork)
    HM_DEFAULT = 3     // shipped default handler (only under fork)
};

// Routes for supplying a virtual argument / making a virtual_ptr
enum Route {
    RT_REF = 0,    // plain: Obj& / Obj* / shared_ptr<Obj>; virtual_ptr<Obj>
                   // from Obj& (dynamic lookup)
    RT_EXACT = 1,  // virtual_ptr<K<c>>(K<c>&) (static shortcut), converted
    RT_FINAL = 2,  // virtual_ptr<K<c>>::final(K<c>&), converted
    RT_COPY = 3,   // RT_REF then copy-constructed
    RT_MOVE = 4,   // RT_EXACT then move-converted
    RT_COUNT = 5
};

struct Event {
    int op = OP_LOAD;
    int pol = -1;
    std::vector<int> recs; // load / unload, in this order
    // update faults (attached to the event they hit)
    std::uint64_t hash_seed = 0;   // 0: shipped seed
    std::uint64_t hash_budget = 0; // 0: shipped budget
    long long alloc_fail_at = -1;  // -1: never; n: n-th allocation in update
    int alloc_fail_from_end = -1;  // >= 0: a fault-free update first counts the
                                   // allocations N, then another update fails
                                   // at allocation N-1-k (a late abort)
    int trace = 0;                 // enable trace output (to a null stream)
    // check
    std::uint64_t sample_seed = 0;
    int max_tuples = 400;
    int routes = 1;    // bit mask over Route
    int call_next = 1; // also follow next from each definition
    // relocate
    int cls = -1;
    std::vector<tid> ids;
    // handler
    int mode = HM_THROW;
    // call / vp_use: method record, argument classes+aliases (one per virtual
    // parameter), route per virtual parameter
    int meth = -1;
    std::vector<int> args;
    std::vector<int> aliases;
    std::vector<int> rts;
    int repeat = 1;    // call: make the same call this many times
    int fork = 0;      // run in a forked child (abort probe)
    int resolve = 0;   // use M::fn.resolve instead of M::fn()
    int final_as = -1; // call: make the virtual_ptr with final<K<final_as>> on
                       // an object of class args[0] (method-table-error probe)
    // vp_make / vp_copy / vp_use / vp_drop
    int vslot = -1;
    int vfrom = -1;
    int alias = 0;
    int route = 0;
    int shared = 0; // virtual_shared_ptr flavour
    // update: also run encode_dispatch_data on the compiler object returned
    int encode = 0;
    // offsets: per_method 1: one generator call per method, 0: one for the
    // policy; stale 1: keep the offsets "compiled in" earlier (fault: header
    // not regenerated); meth >= 0: after installing, add pdelta to entry ppos
    // (slots, then strides) of that method's offsets (fault: header generated
    // from other registrations)
    int per_method = 0;
    int fresh_gen = 0; // a new generator object for this call (else the one
                       // that lives as long as the simulated process)
    // update (with encode) / offsets: also hand the generated text to a real
    // compiler for a syntax check (1: g++, 2: clang++)
    int compile = 0;
    int stale = 0;
    int ppos = 0;
    long long pdelta = 0;
};

struct Plan {
    std::uint64_t seed = 0;
    std::string prop;    // property this run was generated for
    std::string profile; // generator profile / swarm configuration label
    std::vector<std::string> pols;
    World w;
    std::vector<Rec> recs;
    std::vector<Event> events;
    int allow_missing = 0; // fault "lost registration" is part of this plan
    // objects whose dynamic class is a registered *abstract* class are legal
    // arguments (what a method called from the constructor or destructor of
    // an abstract base passes)
    int abstract_args = 0;
    int heap_jitter = 0;   // dummy allocations before the run
    // differential mode: "" (none), "orders" (re-run with event 0's records in
    // each of `orders`), "fresh" (re-run the final live registry in a pristine
    // process state), "canonical" (re-run with one complete record per class),
    // "flavours" (compare the outcome tables of all policies of the plan)
    std::string diff;
    std::vector<std::vector<int>> orders;
    // sched-sim: events [0, setup_events) run before the threads start, the
    // others are the script of the task that works on the second policy
    int setup_events = 0;
};

J event_to_json(const Event& e);
Event event_from_json(const J& o);
J plan_to_json(const Plan& p);
Plan plan_from_json(const J& j);

} // namespace ys
