#include "pols.hpp"
namespace ys {
static WorldT<pol::sofr> the_world("sofr");
}
