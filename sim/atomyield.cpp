// Link-time wrappers (-Wl,--wrap=...) of ThreadSanitizer's atomic entry
// points: every atomic operation of instrumented code (yomm2, the harness,
// inlined standard-library templates such as shared_ptr reference counts)
// becomes a potential scheduling point of sched-sim. Also wraps the guard of
// function-local statics: a task never yields inside a static initialiser
// (another task entering it would block for real while not holding the token).
#include "schedcore.hpp"

using namespace ys;

typedef char a8;
typedef short a16;
typedef int a32;
typedef long a64;

#define WRAP_SIZE(N)                                                           \
    extern "C" {                                                               \
    a##N __real___tsan_atomic##N##_load(const volatile a##N*, int);            \
    void __real___tsan_atomic##N##_store(volatile a##N*, a##N, int);           \
    a##N __real___tsan_atomic##N##_exchange(volatile a##N*, a##N, int);        \
    a##N __real___tsan_atomic##N##_fetch_add(volatile a##N*, a##N, int);       \
    a##N __real___tsan_atomic##N##_fetch_sub(volatile a##N*, a##N, int);       \
    int __real___tsan_atomic##N##_compare_exchange_strong(                     \
        volatile a##N*, a##N*, a##N, int, int);                                \
    int __real___tsan_atomic##N##_compare_exchange_weak(                       \
        volatile a##N*, a##N*, a##N, int, int);                                \
    YS_NOSAN a##N __wrap___tsan_atomic##N##_load(const volatile a##N* p, int mo) { \
        atom_yield();                                                          \
        return __real___tsan_atomic##N##_load(p, mo);                          \
    }                                                                          \
    YS_NOSAN void __wrap___tsan_atomic##N##_store(volatile a##N* p, a##N v, int mo) { \
        atom_yield();                                                          \
        __real___tsan_atomic##N##_store(p, v, mo);                             \
    }                                                                          \
    YS_NOSAN a##N __wrap___tsan_atomic##N##_exchange(volatile a##N* p, a##N v, int mo) { \
        atom_yield();                                                          \
        return __real___tsan_atomic##N##_exchange(p, v, mo);                   \
    }                                                                          \
    YS_NOSAN a##N __wrap___tsan_atomic##N##_fetch_add(volatile a##N* p, a##N v, int mo) { \
        atom_yield();                                                          \
        return __real___tsan_atomic##N##_fetch_add(p, v, mo);                  \
    }                                                                          \
    YS_NOSAN a##N __wrap___tsan_atomic##N##_fetch_sub(volatile a##N* p, a##N v, int mo) { \
        atom_yield();                                                          \
        return __real___tsan_atomic##N##_fetch_sub(p, v, mo);                  \
    }                                                                          \
    YS_NOSAN int __wrap___tsan_atomic##N##_compare_exchange_strong(            \
        volatile a##N* p, a##N* c, a##N v, int mo, int fmo) {                  \
        atom_yield();                                                          \
        return __real___tsan_atomic##N##_compare_exchange_strong(p, c, v, mo, fmo); \
    }                                                                          \
    YS_NOSAN int __wrap___tsan_atomic##N##_compare_exchange_weak(              \
        volatile a##N* p, a##N* c, a##N v, int mo, int fmo) {                  \
        atom_yield();                                                          \
        return __real___tsan_atomic##N##_compare_exchange_weak(p, c, v, mo, fmo); \
    }                                                                          \
    }

WRAP_SIZE(8)
WRAP_SIZE(32)
WRAP_SIZE(64)

extern "C" {
int __real___cxa_guard_acquire(void*);
void __real___cxa_guard_release(void*);
void __real___cxa_guard_abort(void*);
YS_NOSAN int __wrap___cxa_guard_acquire(void* g) {
    int r = __real___cxa_guard_acquire(g);
    if (r)
        ++t_guard_depth;
    return r;
}
YS_NOSAN void __wrap___cxa_guard_release(void* g) {
    if (t_guard_depth > 0)
        --t_guard_depth;
    __real___cxa_guard_release(g);
}
YS_NOSAN void __wrap___cxa_guard_abort(void* g) {
    if (t_guard_depth > 0)
        --t_guard_depth;
    __real___cxa_guard_abort(g);
}
}
