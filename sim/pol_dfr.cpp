#include "pols.hpp"
namespace ys {
static WorldT<pol::dfr> the_world("dfr");
}
