// yosim utilities: PRNG, hashing, tiny JSON. No yomm2 code here.
#pragma once

#include <cstdint>
#include <cstdio>
#include <cstdlib>
#include <cstring>
#include <map>
#include <memory>
#include <stdexcept>
#include <string>
#include <utility>
#include <vector>

namespace ys {

// ---------------------------------------------------------------------------
// PRNG: splitmix64 seeding + xoshiro256**. Everything random in a run comes from
// instances of this, all derived from one integer.

inline std::uint64_t splitmix64(std::uint64_t& x) {
    std::uint64_t z = (x += 0x9e3779b97f4a7c15ULL);
    z = (z ^ (z >> 30)) * 0xbf58476d1ce4e5b9ULL;
    z = (z ^ (z >> 27)) * 0x94d049bb133111ebULL;
    return z ^ (z >> 31);
}

inline std::uint64_t mix3(std::uint64_t a, std::uint64_t b, std::uint64_t c) {
    std::uint64_t s = a * 0x9e3779b97f4a7c15ULL + 0x1234567;
    std::uint64_t r = splitmix64(s);
    s ^= b * 0xc2b2ae3d27d4eb4fULL;
    r ^= splitmix64(s);
    s ^= c * 0x165667b19e3779f9ULL;
    r ^= splitmix64(s);
    return r;
}

struct Rng {
    std::uint64_t s[4];
    explicit Rng(std::uint64_t seed = 1) {
        reseed(seed);
    }
    void reseed(std::uint64_t seed) {
        std::uint64_t x = seed;
        for (auto& v : s)
            v = splitmix64(x);
    }
    static std::uint64_t rotl(std::uint64_t x, int k) {
        return (x << k) | (x >> (64 - k));
    }
    std::uint64_t next() {
        const std::uint64_t result = rotl(s[1] * 5, 7) * 9;
        const std::uint64_t t = s[1] << 17;
        s[2] ^= s[0];
        s[3] ^= s[1];
        s[1] ^= s[2];
        s[0] ^= s[3];
        s[2] ^= t;
        s[3] = rotl(s[3], 45);
        return result;
    }
    // uniform in [0, n)
    std::uint64_t below(std::uint64_t n) {
        if (n <= 1)
            return 0;
        return next() % n; // bias irrelevant here
    }
    int range(int lo, int hi) { // inclusive
        if (hi <= lo)
            return lo;
        return lo + (int)below((std::uint64_t)(hi - lo + 1));
    }
    bool chance(double p) {
        return (next() >> 11) * (1.0 / 9007199254740992.0) < p;
    }
    template<class V>
    auto& pick(V& v) {
        return v[below(v.size())];
    }
    template<class V>
    void shuffle(V& v) {
        for (std::size_t i = v.size(); i > 1; --i) {
            std::size_t j = below(i);
            std::swap(v[i - 1], v[j]);
        }
    }
    Rng fork(std::uint64_t salt) {
        return Rng(mix3(next(), salt, 0x5eed));
    }
};

// ---------------------------------------------------------------------------
// FNV-1a accumulator for event-log hashes (no addresses ever go in here)

struct Hash {
    std::uint64_t h = 1469598103934665603ULL;
    void byte(unsigned char b) {
        h ^= b;
        h *= 1099511628211ULL;
    }
    void u64(std::uint64_t v) {
        for (int i = 0; i < 8; ++i)
            byte((unsigned char)(v >> (8 * i)));
    }
    void str(const std::string& s) {
        for (unsigned char c : s)
            byte(c);
        byte(0);
    }
};

// ---------------------------------------------------------------------------
// JSON

struct J;
using JP = std::shared_ptr<J>;

struct J {
    enum Kind { Null, Bool, Num, Str, Arr, Obj } kind = Null;
    bool b = false;
    bool neg = false;
    std::uint64_t u = 0; // magnitude
    bool is_dbl = false;
    double d = 0;
    std::string s;
    std::vector<J> a;
    std::vector<std::pair<std::string, J>> o;

    J() = default;
    J(bool v) : kind(Bool), b(v) {
    }
    J(int v) : kind(Num) {
        set_i(v);
    }
    J(long v) : kind(Num) {
        set_i(v);
    }
    J(long long v) : kind(Num) {
        set_i(v);
    }
    J(unsigned v) : kind(Num), u(v) {
    }
    J(unsigned long v) : kind(Num), u(v) {
    }
    J(unsigned long long v) : kind(Num), u(v) {
    }
    J(double v) : kind(Num), is_dbl(true), d(v) {
    }
    J(const char* v) : kind(Str), s(v) {
    }
    J(const std::string& v) : kind(Str), s(v) {
    }
    void set_i(long long v) {
        if (v < 0) {
            neg = true;
            u = (std::uint64_t)(-(v + 1)) + 1;
        } else
            u = (std::uint64_t)v;
    }
    static J arr() {
        J j;
        j.kind = Arr;
        return j;
    }
    static J obj() {
        J j;
        j.kind = Obj;
        return j;
    }
    template<class T>
    static J arr_of(const std::vector<T>& v) {
        J j = arr();
        for (auto& x : v)
            j.a.push_back(J(x));
        return j;
    }
    J& push(J v) {
        a.push_back(std::move(v));
        return *this;
    }
    J& set(const std::string& k, J v) {
        for (auto& kv : o)
            if (kv.first == k) {
                kv.second = std::move(v);
                return *this;
            }
        o.emplace_back(k, std::move(v));
        return *this;
    }
    const J* find(const std::string& k) const {
        for (auto& kv : o)
            if (kv.first == k)
                return &kv.second;
        return nullptr;
    }
    bool has(const std::string& k) const {
        return find(k) != nullptr;
    }
    const J& at(const std::string& k) const {
        auto p = find(k);
        if (!p)
            throw std::runtime_error("json: missing key " + k);
        return *p;
    }
    long long i() const {
        if (is_dbl)
            return (long long)d;
        return neg ? -(long long)u : (long long)u;
    }
    std::uint64_t u64() const {
        return u;
    }
    double dbl() const {
        return is_dbl ? d : (neg ? -(double)u : (double)u);
    }
    long long geti(const std::string& k, long long dflt) const {
        auto p = find(k);
        return p ? p->i() : dflt;
    }
    std::uint64_t getu(const std::string& k, std::uint64_t dflt) const {
        auto p = find(k);
        return p ? p->u64() : dflt;
    }
    std::string gets(const std::string& k, const std::string& dflt) const {
        auto p = find(k);
        return p ? p->s : dflt;
    }
    bool getb(const std::string& k, bool dflt) const {
        auto p = find(k);
        return p ? p->b : dflt;
    }
    std::vector<int> ints() const {
        std::vector<int> v;
        for (auto& x : a)
            v.push_back((int)x.i());
        return v;
    }
    std::vector<std::uint64_t> u64s() const {
        std::vector<std::uint64_t> v;
        for (auto& x : a)
            v.push_back(x.u64());
        return v;
    }

    void dump(std::string& out) const {
        switch (kind) {
        case Null:
            out += "null";
            break;
        case Bool:
            out += b ? "true" : "false";
            break;
        case Num: {
            char buf[48];
            if (is_dbl)
                snprintf(buf, sizeof buf, "%.6g", d);
            else
                snprintf(
                    buf, sizeof buf, "%s%llu", neg ? "-" : "",
                    (unsigned long long)u);
            out += buf;
            break;
        }
        case Str:
            out += '"';
            for (unsigned char c : s) {
                if (c == '"' || c == '\\') {
                    out += '\\';
                    out += (char)c;
                } else if (c == '\n')
                    out += "\\n";
                else if (c == '\t')
                    out += "\\t";
                else if (c < 0x20) {
                    char buf[8];
                    snprintf(buf, sizeof buf, "\\u%04x", c);
                    out += buf;
                } else
                    out += (char)c;
            }
            out += '"';
            break;
        case Arr: {
            out += '[';
            bool first = true;
            for (auto& x : a) {
                if (!first)
                    out += ',';
                first = false;
                x.dump(out);
            }
            out += ']';
            break;
        }
        case Obj: {
            out += '{';
            bool first = true;
            for (auto& kv : o) {
                if (!first)
                    out += ',';
                first = false;
                J(kv.first).dump(out);
                out += ':';
                kv.second.dump(out);
            }
            out += '}';
            break;
        }
        }
    }
    std::string str() const {
        std::string out;
        dump(out);
        return out;
    }
};

struct JParser {
    const char* p;
    const char* e;
    explicit JParser(const std::string& s)
        : p(s.data()), e(s.data() + s.size()) {
    }
    [[noreturn]] void fail(const char* m) {
        throw std::runtime_error(std::string("json parse: ") + m);
    }
    void ws() {
        while (p < e && (*p == ' ' || *p == '\n' || *p == '\t' || *p == '\r'))
            ++p;
    }
    J parse() {
        ws();
        if (p >= e)
            fail("eof");
        char c = *p;
        if (c == '{') {
            ++p;
            J j = J::obj();
            ws();
            if (p < e && *p == '}') {
                ++p;
                return j;
            }
            for (;;) {
                ws();
                J k = parse();
                if (k.kind != J::Str)
                    fail("key");
                ws();
                if (p >= e || *p != ':')
                    fail("colon");
                ++p;
                J v = parse();
                j.o.emplace_back(k.s, std::move(v));
                ws();
                if (p < e && *p == ',') {
                    ++p;
                    continue;
                }
                if (p < e && *p == '}') {
                    ++p;
                    return j;
                }
                fail("obj");
            }
        }
        if (c == '[') {
            ++p;
            J j = J::arr();
            ws();
            if (p < e && *p == ']') {
                ++p;
                return j;
            }
            for (;;) {
                j.a.push_back(parse());
                ws();
                if (p < e && *p == ',') {
                    ++p;
                    continue;
                }
                if (p < e && *p == ']') {
                    ++p;
                    return j;
                }
                fail("arr");
            }
        }
        if (c == '"') {
            ++p;
            J j;
            j.kind = J::Str;
            while (p < e && *p != '"') {
                if (*p == '\\') {
                    ++p;
                    if (p >= e)
                        fail("esc");
                    switch (*p) {
                    case 'n':
                        j.s += '\n';
                        break;
                    case 't':
                        j.s += '\t';
                        break;
                    case 'u': {
                        if (e - p < 5)
                            fail("u");
                        char buf[5] = {p[1], p[2], p[3], p[4], 0};
                        j.s += (char)strtol(buf, nullptr, 16);
                        p += 4;
                        break;
                    }
                    default:
                        j.s += *p;
                    }
                    ++p;
                } else
                    j.s += *p++;
            }
            if (p >= e)
                fail("str");
            ++p;
            return j;
        }
        if (!strncmp(p, "true", 4) && e - p >= 4) {
            p += 4;
            return J(true);
        }
        if (!strncmp(p, "false", 5) && e - p >= 5) {
            p += 5;
            return J(false);
        }
        if (!strncmp(p, "null", 4) && e - p >= 4) {
            p += 4;
            return J();
        }
        // number
        const char* start = p;
        bool neg = false;
        if (*p == '-') {
            neg = true;
            ++p;
        }
        std::uint64_t u = 0;
        bool any = false, dbl = false;
        while (p < e && *p >= '0' && *p <= '9') {
            u = u * 10 + (std::uint64_t)(*p - '0');
            ++p;
            any = true;
        }
        if (p < e && (*p == '.' || *p == 'e' || *p == 'E')) {
            dbl = true;
            while (p < e &&
                   (*p == '.' || *p == 'e' || *p == 'E' || *p == '+' ||
                    *p == '-' || (*p >= '0' && *p <= '9')))
                ++p;
        }
        if (!any)
            fail("value");
        J j;
        j.kind = J::Num;
        if (dbl) {
            j.is_dbl = true;
            j.d = strtod(std::string(start, p).c_str(), nullptr);
        } else {
            j.neg = neg && u != 0;
            j.u = u;
        }
        return j;
    }
};

inline J jparse(const std::string& s) {
    JParser p(s);
    return p.parse();
}

} // namespace ys
#include <sys/time.h>
namespace ys {
// watchdog in CPU time of this process (not wall-clock: a loaded machine
// must never turn a slow run into a failure); SIGPROF kills a run that spins
inline void cpu_alarm(int seconds) {
    struct itimerval it;
    it.it_interval.tv_sec = 0;
    it.it_interval.tv_usec = 0;
    it.it_value.tv_sec = seconds;
    it.it_value.tv_usec = 0;
    setitimer(ITIMER_PROF, &it, nullptr);
}

inline std::string read_file(const std::string& path) {
    FILE* f = fopen(path.c_str(), "rb");
    if (!f)
        throw std::runtime_error("cannot open " + path);
    std::string s;
    char buf[65536];
    size_t n;
    while ((n = fread(buf, 1, sizeof buf, f)) > 0)
        s.append(buf, n);
    fclose(f);
    return s;
}

inline void write_file(const std::string& path, const std::string& s) {
    FILE* f = fopen(path.c_str(), "wb");
    if (!f)
        throw std::runtime_error("cannot write " + path);
    fwrite(s.data(), 1, s.size(), f);
    fclose(f);
}

} // namespace ys
