#include "gen.hpp"
#include "model.hpp"

#include <algorithm>
#include <functional>
#include <map>
#include <set>

namespace ys {

const char* const SLOT_KINDS[NSLOTS] = {
    "V",   "V",     "IV",   "VI", "VV", "VV", "VIV", "IVVI", "VVV", "VIVIV",
    "VVVV", "Q",    "QQ",   "QIQ", "T",  "S",  "RV",  "CV",   "W",   "VIW",
    "VVVVV", "TICWR"};

namespace {

enum Family {
    F_CHAIN,
    F_TREE,
    F_DAG,
    F_DIAMONDS,
    F_LADDER,
    F_BOOLEAN,
    F_WIDE,
    F_JOIN, // several roots, a chain under each, classes joining the chains
    F_SKEW, // a class joining a shallow and a deep branch, next to a short
            // chain: winners with fewer bases in total than the losers
    F_COUNT
};

enum IdFam { ID_SMALL, ID_RANDOM, ID_POINTERS, ID_HIGHBITS, ID_STRIDE, ID_COUNT };

enum Style {
    ST_COMPLETE, // self + every ancestor (what use_classes produces)
    ST_DIRECT,   // direct bases only (class_declaration<C, Bases...>)
    ST_DIRECT_SELF,
    ST_MIXED, // direct bases + some indirect ones, +- self, duplicates
    ST_SPLIT, // several records per class, union covers the direct bases
    ST_COUNT
};

struct Gen {
    Rng r;
    Plan p;
    int tier;
    std::vector<std::uint32_t> anc, desc;

    Gen(std::uint64_t seed, int tier_) : r(seed), tier(tier_) {
        p.seed = seed;
    }

    // ---- world

    void world(int n, int family, double p_abstract) {
        p.w.ncls = n;
        p.w.parents.assign(n, {});
        p.w.abstract.assign(n, 0);
        for (int i = 0; i < n; ++i) {
            auto& par = p.w.parents[i];
            switch (family) {
            case F_CHAIN:
                if (i > 0)
                    par.push_back(i - 1);
                break;
            case F_TREE:
                if (i > 0 && !r.chance(0.08))
                    par.push_back((int)r.below(i));
                break;
            case F_DAG: {
                if (i == 0)
                    break;
                int k = 0;
                double x = r.below(100) / 100.0;
                if (x < 0.12)
                    k = 0;
                else if (x < 0.50)
                    k = 1;
                else if (x < 0.86)
                    k = 2;
                else
                    k = 3;
                std::set<int> s;
                for (int j = 0; j < k; ++j)
                    s.insert((int)r.below(i));
                par.assign(s.begin(), s.end());
                break;
            }
            case F_DIAMONDS: {
                int m = i % 4;
                if (m == 0) {
                    if (i > 0)
                        par.push_back(i - 1);
                } else if (m == 1 || m == 2) {
                    par.push_back(i - m);
                } else {
                    par.push_back(i - 1);
                    par.push_back(i - 2);
                }
                break;
            }
            case F_LADDER: {
                // L_k, R_k, M_k : L_k, R_k ; L_k : L_{k-1} ; R_k : R_{k-1}
                int k = i / 3, m = i % 3;
                if (m == 0 || m == 1) {
                    if (k > 0)
                        par.push_back(i - 3);
                } else {
                    par.push_back(i - 2);
                    par.push_back(i - 1);
                    if (k > 0 && r.chance(0.3))
                        par.push_back(i - 3);
                }
                break;
            }
            case F_BOOLEAN: {
                // classes are subsets of a small set ordered by popcount;
                // parents: subsets with one element less
                break; // filled below
            }
            case F_WIDE: {
                if (i == 0)
                    break;
                if (i < n * 2 / 3 || i < 3) {
                    par.push_back(r.chance(0.8) ? 0 : (int)r.below(i));
                } else {
                    std::set<int> s;
                    int k = r.range(2, 3);
                    for (int j = 0; j < k; ++j)
                        s.insert(1 + (int)r.below(i - 1));
                    par.assign(s.begin(), s.end());
                }
                break;
            }
            }
        }
        if (family == F_JOIN) {
            int nroots = r.range(2, 3);
            std::vector<std::vector<int>> chains(nroots);
            int i = 0;
            int chain_len = std::max(1, std::min(4, (n - 1) / nroots));
            for (int c = 0; c < nroots && i < n; ++c) {
                int len = r.range(std::max(1, chain_len - 1), chain_len);
                for (int k = 0; k < len && i < n; ++k, ++i) {
                    if (k > 0)
                        p.w.parents[i].push_back(i - 1);
                    chains[c].push_back(i);
                }
            }
            for (; i < n; ++i) {
                // a join: parents from two or three different chains (or an
                // earlier join), usually their tips
                std::set<int> s;
                int k = r.range(2, nroots);
                std::vector<int> which;
                for (int c = 0; c < nroots; ++c)
                    if (!chains[c].empty())
                        which.push_back(c);
                r.shuffle(which);
                for (int j = 0; j < k && j < (int)which.size(); ++j) {
                    auto& ch = chains[which[j]];
                    s.insert(r.chance(0.7) ? ch.back() : ch[r.below(ch.size())]);
                }
                p.w.parents[i].assign(s.begin(), s.end());
                if (r.chance(0.4))
                    chains[which[0]].push_back(i); // grows below the join
            }
        }
        if (family == F_SKEW && n >= 8) {
            // 0 <- 1 (chain A0, A1); 2 = Role; 3 = S : Role; 4 <- 5 <- 6 = R
            // (deep, under Role); 7 = J : S, R; the rest hangs anywhere
            for (auto& par : p.w.parents)
                par.clear();
            p.w.parents[1] = {0};
            p.w.parents[3] = {2};
            p.w.parents[4] = {2};
            p.w.parents[5] = {4};
            p.w.parents[6] = {5};
            p.w.parents[7] = {3, 6};
            for (int i = 8; i < n; ++i) {
                int k = r.range(1, 2);
                std::set<int> s;
                for (int j = 0; j < k; ++j)
                    s.insert((int)r.below(i));
                p.w.parents[i].assign(s.begin(), s.end());
            }
        }
        if (family == F_BOOLEAN) {
            std::vector<int> masks;
            for (int bits = 0; bits <= 4; ++bits)
                for (int m = 0; m < 16; ++m)
                    if (__builtin_popcount(m) == bits)
                        masks.push_back(m);
            for (int i = 0; i < n; ++i)
                for (int j = 0; j < i; ++j)
                    if ((masks[j] & masks[i]) == masks[j] &&
                        __builtin_popcount(masks[i] ^ masks[j]) == 1)
                        p.w.parents[i].push_back(j);
        }
        closure();
        // drop redundant parents (an ancestor of another parent)
        for (int i = 0; i < n; ++i) {
            std::vector<int> keep;
            for (int a : p.w.parents[i]) {
                bool redundant = false;
                for (int b : p.w.parents[i])
                    if (a != b && ((anc[b] >> a) & 1u))
                        redundant = true;
                if (!redundant)
                    keep.push_back(a);
            }
            p.w.parents[i] = keep;
        }
        closure();
        for (int i = 0; i < n; ++i) {
            double pa = p_abstract;
            if (p.w.parents[i].empty())
                pa *= 2.5; // roots are often abstract
            if (desc[i] == (1u << i))
                pa *= 0.3; // leaves rarely
            p.w.abstract[i] = r.chance(pa) ? 1 : 0;
        }
    }

    void closure() {
        int n = p.w.ncls;
        anc.assign(n, 0);
        desc.assign(n, 0);
        for (int i = 0; i < n; ++i) {
            anc[i] = 1u << i;
            for (int a : p.w.parents[i])
                anc[i] |= anc[a]; // parents have smaller indexes
        }
        for (int i = 0; i < n; ++i)
            for (int b = 0; b < n; ++b)
                if ((anc[i] >> b) & 1u)
                    desc[b] |= 1u << i;
    }

    std::vector<int> bits(std::uint32_t m) {
        std::vector<int> v;
        for (int i = 0; i < 32; ++i)
            if ((m >> i) & 1u)
                v.push_back(i);
        return v;
    }

    // ---- ids

    std::vector<tid> fresh_ids(int fam, int count, std::set<tid>& used) {
        std::vector<tid> out;
        static const tid base_ptr = 0x00005566778899a0ULL;
        tid stride = 8 * (1 + r.below(64));
        tid sbase = 0x100000 + 16 * r.below(1 << 20);
        while ((int)out.size() < count) {
            tid id = 0;
            switch (fam) {
            case ID_SMALL:
                id = r.below(400); // 0 is a legal custom id
                break;
            case ID_RANDOM:
                id = r.next();
                break;
            case ID_POINTERS:
                id = base_ptr + 16 * r.below(4096);
                break;
            case ID_HIGHBITS:
                id = (r.below(1 << 15) << 48) | 0x1230;
                break;
            case ID_STRIDE:
                id = sbase + stride * r.below(512);
                break;
            }
            if (fam != ID_SMALL && r.chance(0.02))
                id = 0;
            if (id == ~(tid)0 || id == OBJ_STATIC || id == NONOBJ)
                continue;
            if (!used.insert(id).second)
                continue;
            out.push_back(id);
        }
        return out;
    }

    static constexpr tid OBJ_STATIC = 0x7fffffff00000001ULL;
    static constexpr tid NONOBJ = 0x7fffffff00000002ULL;
    int idfam = ID_RANDOM;
    std::set<tid> used_ids;

    void ids(int fam, int max_alias) {
        idfam = fam;
        p.w.ids.assign(p.w.ncls, {});
        for (int c = 0; c < p.w.ncls; ++c) {
            int na = 1;
            if (max_alias > 1 && r.chance(0.4))
                na = r.range(2, max_alias);
            p.w.ids[c] = fresh_ids(fam, na, used_ids);
        }
    }

    // ---- records

    int add(const Rec& rec) {
        p.recs.push_back(rec);
        return (int)p.recs.size() - 1;
    }

    // class records of policy pi; returns record indices per class
    std::vector<std::vector<int>>
    class_recs(int pi, int style, bool aliases, const std::vector<int>& only = {}) {
        int n = p.w.ncls;
        std::vector<std::vector<int>> out(n);
        for (int c = 0; c < n; ++c) {
            if (!only.empty() &&
                std::find(only.begin(), only.end(), c) == only.end())
                continue;
            int na = aliases ? (int)p.w.ids[c].size() : 1;
            int st = style;
            if (st < 0)
                st = (int)r.below(ST_COUNT);
            for (int a = 0; a < na; ++a) {
                // aliases beyond the first are registered most of the time
                if (a > 0 && r.chance(0.25))
                    continue;
                std::vector<int> ancs = bits(anc[c] & ~(1u << c));
                auto& par = p.w.parents[c];
                auto mk = [&](std::vector<int> bases) {
                    Rec rec;
                    rec.kind = RK_CLASS;
                    rec.pol = pi;
                    rec.cls = c;
                    rec.alias = a;
                    rec.bases = std::move(bases);
                    out[c].push_back(add(rec));
                };
                switch (st) {
                case ST_COMPLETE: {
                    std::vector<int> b = bits(anc[c]);
                    mk(b);
                    break;
                }
                case ST_DIRECT:
                    mk(par);
                    break;
                case ST_DIRECT_SELF: {
                    std::vector<int> b = par;
                    b.insert(b.begin(), c);
                    mk(b);
                    break;
                }
                case ST_MIXED: {
                    std::vector<int> b = par;
                    for (int x : ancs)
                        if (std::find(par.begin(), par.end(), x) == par.end() &&
                            r.chance(0.4))
                            b.push_back(x);
                    if (r.chance(0.5))
                        b.push_back(c);
                    if (!b.empty() && r.chance(0.3))
                        b.push_back(b[r.below(b.size())]); // duplicate
                    r.shuffle(b);
                    mk(b);
                    break;
                }
                case ST_SPLIT: {
                    int k = r.range(2, 3);
                    std::vector<std::vector<int>> parts(k);
                    for (int x : par)
                        parts[r.below(k)].push_back(x);
                    for (int x : ancs)
                        if (r.chance(0.25))
                            parts[r.below(k)].push_back(x);
                    if (r.chance(0.5))
                        parts[r.below(k)].push_back(c);
                    for (auto& b : parts)
                        mk(b);
                    break;
                }
                }
            }
        }
        return out;
    }

    int pick_descendant(int c, bool deep) {
        auto d = bits(desc[c]);
        int x = d[r.below(d.size())];
        if (deep) {
            for (int i = 0; i < 3; ++i) {
                auto dd = bits(desc[x] & ~(1u << x));
                if (dd.empty() || r.chance(0.2))
                    break;
                x = dd[r.below(dd.size())];
            }
        }
        return x;
    }

    int method(int pi, int slot, double root_bias) {
        Rec m;
        m.kind = RK_METHOD;
        m.pol = pi;
        m.slot = slot;
        int k = slot_arity(slot);
        int n = p.w.ncls;
        for (int i = 0; i < k; ++i) {
            int c;
            if (r.chance(root_bias)) {
                // a class with many descendants
                int best = (int)r.below(n);
                for (int t = 0; t < 3; ++t) {
                    int x = (int)r.below(n);
                    if (__builtin_popcount(desc[x]) >
                        __builtin_popcount(desc[best]))
                        best = x;
                }
                c = best;
            } else
                c = (int)r.below(n);
            while (desc[c] == 0) // a class set aside by the profile
                c = (c + 1) % n;
            m.vp.push_back(c);
        }
        return add(m);
    }

    // definitions of method mi; returns their record indices
    std::vector<int> defs(int pi, int mi, int count, double focus, int first_body = 0) {
        std::vector<int> out;
        auto mvp = p.recs[mi].vp;
        int k = (int)mvp.size();
        std::vector<int> foc(k);
        for (int i = 0; i < k; ++i)
            foc[i] = pick_descendant(mvp[i], true);
        for (int d = 0; d < count && first_body + d < MAXBODY; ++d) {
            Rec def;
            def.kind = RK_DEF;
            def.pol = pi;
            def.meth = mi;
            def.body = first_body + d;
            def.nonext = r.chance(0.2); // add_function without a next slot
            if (r.chance(0.15))
                for (int i = 0; i < k; ++i)
                    foc[i] = pick_descendant(mvp[i], true);
            for (int i = 0; i < k; ++i) {
                int c;
                if (r.chance(focus)) {
                    // between the focus class and the parameter class
                    auto cand = bits(anc[foc[i]] & desc[mvp[i]]);
                    c = cand[r.below(cand.size())];
                } else
                    c = pick_descendant(mvp[i], false);
                def.vp.push_back(c);
            }
            out.push_back(add(def));
        }
        return out;
    }

    // a legal registration order of the given records (definitions after
    // their method), otherwise uniformly shuffled
    std::vector<int> order(std::vector<int> recs) {
        r.shuffle(recs);
        std::vector<int> out;
        std::set<int> emitted;
        std::vector<int> pending = recs;
        while (!pending.empty()) {
            std::vector<int> next;
            bool progress = false;
            for (int ri : pending) {
                auto& rec = p.recs[ri];
                bool ready = rec.kind != RK_DEF || emitted.count(rec.meth) ||
                    std::find(recs.begin(), recs.end(), rec.meth) == recs.end();
                if (ready) {
                    out.push_back(ri);
                    emitted.insert(ri);
                    progress = true;
                } else
                    next.push_back(ri);
            }
            pending = next;
            if (!progress)
                break;
        }
        return out;
    }

    // ---- events

    void ev_load(const std::vector<int>& recs) {
        if (recs.empty())
            return;
        Event e;
        e.op = OP_LOAD;
        e.recs = recs;
        p.events.push_back(e);
    }
    void ev_unload(const std::vector<int>& recs) {
        if (recs.empty())
            return;
        Event e;
        e.op = OP_UNLOAD;
        e.recs = recs;
        p.events.push_back(e);
    }
    Event& ev_update(int pi) {
        Event e;
        e.op = OP_UPDATE;
        e.pol = pi;
        p.events.push_back(e);
        return p.events.back();
    }
    Event& ev_check(int pi, int routes = 1, int max_tuples = 0) {
        Event e;
        e.op = OP_CHECK;
        e.pol = pi;
        e.sample_seed = r.next();
        e.max_tuples = max_tuples ? max_tuples : (tier ? 600 : 250);
        e.routes = routes;
        e.call_next = 1;
        p.events.push_back(e);
        return p.events.back();
    }
    void ev_handler(int pi, int mode) {
        Event e;
        e.op = OP_HANDLER;
        e.pol = pi;
        e.mode = mode;
        p.events.push_back(e);
    }

    // ---- choices shared by the profiles

    int pick_family() {
        static const int f[] = {F_CHAIN, F_TREE,    F_TREE,  F_DAG,  F_DAG,
                                F_DAG,   F_DIAMONDS, F_LADDER, F_BOOLEAN,
                                F_WIDE,  F_JOIN};
        return f[r.below(sizeof f / sizeof f[0])];
    }

    int pick_ncls(int family, int lo, int hi) {
        int n = r.range(lo, hi);
        if (r.chance(0.6))
            n = std::min(n, r.range(lo, std::max(lo, (lo + hi) / 2)));
        if (family == F_BOOLEAN)
            n = std::min(n, 16);
        return n;
    }

    int pick_idfam(bool small_only) {
        if (small_only)
            return ID_SMALL;
        return (int)r.below(ID_COUNT);
    }

    std::vector<int> pick_slots(const std::vector<int>& pool, int n) {
        std::vector<int> s = pool;
        r.shuffle(s);
        if ((int)s.size() > n)
            s.resize(n);
        return s;
    }
};

bool small_ids_policy(const std::string& n) {
    return n == "vec" || n == "dfv" || n == "vecx";
}
bool no_alias_policy(const std::string& n) {
    return n == "sdbg" || n == "srel" || n == "sofd" || n == "sofr" ||
        n == "shr";
}

const std::vector<std::string> ALL_POLS = {
    "dbg", "rel",  "vec",  "map", "ind",  "cind", "thr", "sdbg",
    "srel", "dfr", "dfv", "mapx", "mapy", "relx", "vecx", "shr"};
const std::vector<int> REF_SLOTS = {0, 1, 2, 3, 4, 5, 6, 7, 8, 9, 10, 14, 15, 16, 20};
const std::vector<int> VP_SLOTS = {11, 12, 13, 17, 18, 19, 21};
const std::vector<int> ALL_SLOTS = {0,  1,  2,  3,  4,  5,  6,  7,  8,  9,
                                    10, 11, 12, 13, 14, 15, 16, 17, 18, 19,
                                    20, 21};

// routes that work on the unchanged library (5 and 6, the non-const and
// rvalue shared_ptr constructors, are exercised by the C09 profile only)
constexpr int ROUTES_BASIC = (1 << RT_REF) | (1 << RT_EXACT) | (1 << RT_FINAL) |
    (1 << RT_COPY) | (1 << RT_MOVE) | (1 << 7);

struct BasicOpts {
    std::vector<std::string> pols = ALL_POLS;
    std::vector<int> slots = ALL_SLOTS;
    int min_cls = 1, max_cls = 10;
    int min_meth = 1, max_meth = 3;
    int min_defs = 0, max_defs = 8;
    double focus = 0.7;
    double p_abstract = 0.12;
    int style = -1; // random per class
    int max_alias = 1;
    int family = -1;
    double root_bias = 0.6;
    double p_gadget = 0.0; // add the non-transitive three-definition gadget
};

std::vector<int> nontransitive_gadget(Gen& g, int pi, const std::set<int>& used_slots);
std::vector<int> skew_gadget(Gen& g, int pi, const std::set<int>& used_slots);

// one policy, one world, one registry; fills g.p.recs and returns all records
std::vector<int> basic_registry(Gen& g, const BasicOpts& o, int pi) {
    std::vector<int> all;
    int style = o.style;
    if (style == -1 && g.r.chance(0.5))
        style = (int)g.r.below(ST_COUNT); // uniform style for the whole world
    auto& pname = g.p.pols[pi];
    auto cr = g.class_recs(pi, style, o.max_alias > 1 && !no_alias_policy(pname));
    for (auto& v : cr)
        for (int ri : v)
            all.push_back(ri);
    int nm = g.r.range(o.min_meth, o.max_meth);
    auto slots = g.pick_slots(o.slots, nm);
    for (int s : slots) {
        int mi = g.method(pi, s, o.root_bias);
        all.push_back(mi);
        int nd = g.r.range(o.min_defs, o.max_defs);
        for (int di : g.defs(pi, mi, nd, o.focus))
            all.push_back(di);
    }
    std::set<int> used(slots.begin(), slots.end());
    if (g.r.chance(o.p_gadget)) {
        for (int ri : nontransitive_gadget(g, pi, used)) {
            all.push_back(ri);
            if (g.p.recs[ri].kind == RK_METHOD)
                used.insert(g.p.recs[ri].slot);
        }
    }
    if (g.r.chance(o.p_gadget))
        for (int ri : skew_gadget(g, pi, used))
            all.push_back(ri);
    return all;
}

// A method with three definitions X=(A,R), Y=(A1,A), Z=(R,A1) where A1 derives
// from A, R is unrelated to both, and some class D derives from A1 and R:
// Y beats X, Z beats Y, X and Z are incomparable - "more specific than every
// other" and "not beaten" come apart for the tuple (D, D). Returns the records
// added (none if the lattice has no such classes or no free 2-ary slot).
std::vector<int> nontransitive_gadget(Gen& g, int pi, const std::set<int>& used_slots) {
    std::vector<int> out;
    int n = g.p.w.ncls;
    static const int two_ary[] = {4, 5, 12, 16, 17};
    std::vector<int> slots;
    for (int s : two_ary)
        if (!used_slots.count(s))
            slots.push_back(s);
    if (slots.empty() || n < 5)
        return out;
    for (int t = 0; t < 300; ++t) {
        int A = (int)g.r.below(n), A1 = (int)g.r.below(n), R = (int)g.r.below(n);
        if (A1 == A || !((g.anc[A1] >> A) & 1u))
            continue;
        auto related = [&](int x, int y) {
            return ((g.anc[x] >> y) & 1u) || ((g.anc[y] >> x) & 1u);
        };
        if (related(R, A) || related(R, A1))
            continue;
        std::uint32_t common = g.desc[A1] & g.desc[R];
        bool concrete = false;
        for (int c = 0; c < n; ++c)
            if (((common >> c) & 1u) && !g.p.w.abstract[c])
                concrete = true;
        if (!concrete)
            continue;
        std::uint32_t roots = g.anc[A] & g.anc[R];
        if (!roots)
            continue;
        auto rs = g.bits(roots);
        int T = rs[g.r.below(rs.size())];
        Rec m;
        m.kind = RK_METHOD;
        m.pol = pi;
        m.slot = slots[g.r.below(slots.size())];
        m.vp = {T, T};
        int mi = g.add(m);
        out.push_back(mi);
        int defs[3][2] = {{A, R}, {A1, A}, {R, A1}};
        for (int d = 0; d < 3; ++d) {
            Rec def;
            def.kind = RK_DEF;
            def.pol = pi;
            def.meth = mi;
            def.body = d;
            def.nonext = g.r.chance(0.2);
            def.vp = {defs[d][0], defs[d][1]};
            out.push_back(g.add(def));
        }
        // sometimes a definition below all three, which calls next
        if (g.r.chance(0.4)) {
            auto cs = g.bits(common);
            int D = cs[g.r.below(cs.size())];
            Rec def;
            def.kind = RK_DEF;
            def.pol = pi;
            def.meth = mi;
            def.body = 3;
            def.vp = {D, D};
            out.push_back(g.add(def));
        }
        return out;
    }
    return out;
}

// A two-parameter method with definitions X = (A1, S), Y = (A0, R) and
// D = (A1, J), where A1 derives from A0, J derives from the unrelated S and R,
// and R has more bases than S: X is more specific than Y (first position; the
// second is ignored, S and R being unrelated) although Y's classes have more
// bases in total. next(D) = X; the call (A1, J) runs D.
std::vector<int> skew_gadget(Gen& g, int pi, const std::set<int>& used_slots) {
    std::vector<int> out;
    int n = g.p.w.ncls;
    static const int two_ary[] = {4, 5, 12, 16, 17};
    std::vector<int> slots;
    for (int s : two_ary)
        if (!used_slots.count(s))
            slots.push_back(s);
    if (slots.empty() || n < 6)
        return out;
    auto weight = [&](int c) { return __builtin_popcount(g.anc[c]); };
    auto related = [&](int x, int y) {
        return ((g.anc[x] >> y) & 1u) || ((g.anc[y] >> x) & 1u);
    };
    for (int t = 0; t < 400; ++t) {
        int A0 = (int)g.r.below(n), A1 = (int)g.r.below(n);
        int S = (int)g.r.below(n), R = (int)g.r.below(n);
        if (A1 == A0 || !((g.anc[A1] >> A0) & 1u))
            continue;
        if (S == R || related(S, R))
            continue;
        if (weight(A0) + weight(R) <= weight(A1) + weight(S))
            continue;
        std::uint32_t joins = g.desc[S] & g.desc[R];
        std::uint32_t tops = g.anc[S] & g.anc[R];
        if (!joins || !tops)
            continue;
        auto js = g.bits(joins);
        auto ts = g.bits(tops);
        int J = js[g.r.below(js.size())];
        int P1 = ts[g.r.below(ts.size())];
        auto a0s = g.bits(g.anc[A0]);
        int P0 = a0s[g.r.below(a0s.size())];
        Rec m;
        m.kind = RK_METHOD;
        m.pol = pi;
        m.slot = slots[g.r.below(slots.size())];
        m.vp = {P0, P1};
        int mi = g.add(m);
        out.push_back(mi);
        int defs[3][2] = {{A1, S}, {A0, R}, {A1, J}};
        int order[3] = {0, 1, 2};
        for (int i = 2; i > 0; --i)
            std::swap(order[i], order[g.r.below(i + 1)]);
        for (int k = 0; k < 3; ++k) {
            int d = order[k];
            Rec def;
            def.kind = RK_DEF;
            def.pol = pi;
            def.meth = mi;
            def.body = d;
            def.vp = {defs[d][0], defs[d][1]};
            out.push_back(g.add(def));
        }
        return out;
    }
    return out;
}

void basic_world(Gen& g, const BasicOpts& o, bool small_only) {
    int fam = o.family >= 0 ? o.family : g.pick_family();
    if (o.family < 0 && o.p_gadget > 0 && g.r.chance(0.1))
        fam = F_SKEW;
    int n = g.pick_ncls(fam, fam == F_SKEW ? std::max(8, o.min_cls) : o.min_cls,
                        fam == F_SKEW ? std::max(10, o.max_cls) : o.max_cls);
    g.world(n, fam, o.p_abstract);
    g.ids(g.pick_idfam(small_only), o.max_alias);
    g.p.profile += "/fam" + std::to_string(fam) + "/id" + std::to_string(g.idfam);
}

// load everything, update, check
Plan gen_basic(const std::string& prop, std::uint64_t seed, int tier, BasicOpts o) {
    Gen g(seed, tier);
    g.p.prop = prop;
    g.p.profile = "basic";
    std::string pol = o.pols[g.r.below(o.pols.size())];
    g.p.pols = {pol};
    if (tier && g.r.chance(0.3))
        o.max_cls = std::min(24, o.max_cls * 2);
    basic_world(g, o, small_ids_policy(pol));
    auto all = basic_registry(g, o, 0);
    g.ev_load(g.order(all));
    if ((pol == "dbg" || pol == "rel") && g.r.chance(0.3))
        g.ev_handler(0, HM_CALL_ERROR);
    auto& up = g.ev_update(0);
    if (pol == "dbg" && g.r.chance(0.2))
        up.trace = 1;
    g.ev_check(0, ROUTES_BASIC);
    g.p.heap_jitter = g.r.chance(0.3) ? (int)g.r.below(40) : 0;
    return g.p;
}

// ---------------------------------------------------------------------------
// histories: modules (groups of records) loaded and unloaded, updates between

struct Module {
    std::vector<int> recs; // in load order
    std::vector<int> deps; // modules that must be loaded
    bool loaded = false;
};

struct HistOpts {
    BasicOpts b;
    int min_steps = 3, max_steps = 12;
    bool faults = false;     // hash budget / allocation failure
    bool relocate = false;   // ids change while a class is unloaded
    bool twice = true;       // occasionally update twice in a row
    bool hash_faults_only = false;
    double p_check = 0.8;
    double p_recycle = 0.0; // a loaded method destroyed and re-made in place
};

// builds modules for policy pi over the current world
std::vector<Module> build_modules(Gen& g, const BasicOpts& o, int pi) {
    std::vector<Module> mods;
    int n = g.p.w.ncls;
    // class modules: consecutive runs in topological order
    int k = g.r.range(1, std::min(4, n));
    std::vector<int> class_mod(n);
    for (int c = 0; c < n; ++c)
        class_mod[c] = std::min(k - 1, c * k / n);
    int style = o.style;
    if (style == -1 && g.r.chance(0.5))
        style = (int)g.r.below(ST_COUNT);
    auto& pname = g.p.pols[pi];
    auto cr = g.class_recs(pi, style, o.max_alias > 1 && !no_alias_policy(pname));
    mods.resize(k);
    for (int c = 0; c < n; ++c)
        for (int ri : cr[c])
            mods[class_mod[c]].recs.push_back(ri);
    for (int m = 0; m < k; ++m) {
        mods[m].recs = g.order(mods[m].recs);
        for (int d = 0; d < m; ++d)
            mods[m].deps.push_back(d); // conservative: earlier class modules
    }
    auto class_deps = [&](const std::vector<int>& classes, std::vector<int>& deps) {
        for (int c : classes) {
            int m = class_mod[c];
            if (std::find(deps.begin(), deps.end(), m) == deps.end())
                deps.push_back(m);
        }
    };
    int nm = g.r.range(o.min_meth, o.max_meth);
    auto slots = g.pick_slots(o.slots, nm);
    for (int s : slots) {
        Module mm;
        int mi = g.method(pi, s, o.root_bias);
        mm.recs.push_back(mi);
        class_deps(g.p.recs[mi].vp, mm.deps);
        int nd = g.r.range(o.min_defs, o.max_defs);
        auto ds = g.defs(pi, mi, nd, o.focus);
        // some definitions live with the method, the others in 1-2 modules
        // of their own
        std::vector<Module> extra(g.r.range(0, 2));
        int mm_index = (int)mods.size();
        for (int di : ds) {
            if (extra.empty() || g.r.chance(0.4)) {
                mm.recs.push_back(di);
                class_deps(g.p.recs[di].vp, mm.deps);
            } else {
                auto& x = extra[g.r.below(extra.size())];
                x.recs.push_back(di);
                class_deps(g.p.recs[di].vp, x.deps);
            }
        }
        mods.push_back(mm);
        for (auto& x : extra) {
            if (x.recs.empty())
                continue;
            x.deps.push_back(mm_index);
            mods.push_back(x);
        }
    }
    return mods;
}

void history(
    Gen& g, const HistOpts& o, int pi, std::vector<Module>& mods, int steps,
    int routes) {
    auto& pname = g.p.pols[pi];
    bool has_hash = pname != "vec" && pname != "map" && pname != "dfv" &&
        pname != "mapx" && pname != "mapy" && pname != "vecx";
    auto can_load = [&](int m) {
        if (mods[m].loaded)
            return false;
        for (int d : mods[m].deps)
            if (!mods[d].loaded)
                return false;
        return true;
    };
    auto can_unload = [&](int m) {
        if (!mods[m].loaded)
            return false;
        for (std::size_t x = 0; x < mods.size(); ++x)
            if (mods[x].loaded &&
                std::find(mods[x].deps.begin(), mods[x].deps.end(), m) !=
                    mods[x].deps.end())
                return false;
        return true;
    };
    bool dirty = true;
    bool need_repair = false;
    for (int s = 0; s < steps; ++s) {
        std::vector<int> L, U;
        for (int m = 0; m < (int)mods.size(); ++m) {
            if (can_load(m))
                L.push_back(m);
            if (can_unload(m))
                U.push_back(m);
        }
        int loaded = 0;
        for (auto& m : mods)
            loaded += m.loaded;
        double pl = L.empty() ? 0 : (loaded * 2 < (int)mods.size() ? 0.75 : 0.45);
        if (!L.empty() && (U.empty() || g.r.chance(pl))) {
            int m = L[g.r.below(L.size())];
            g.ev_load(mods[m].recs);
            mods[m].loaded = true;
            dirty = true;
        } else if (!U.empty()) {
            int m = U[g.r.below(U.size())];
            auto rv = mods[m].recs;
            // unload in reverse order most of the time (as a loader would)
            if (g.r.chance(0.7))
                std::reverse(rv.begin(), rv.end());
            else {
                // definitions must go before their method
                std::stable_sort(rv.begin(), rv.end(), [&](int a, int b) {
                    return g.p.recs[a].kind == RK_DEF &&
                        g.p.recs[b].kind != RK_DEF;
                });
            }
            g.ev_unload(rv);
            mods[m].loaded = false;
            dirty = true;
            if (o.relocate && g.idfam != ID_SMALL && g.r.chance(0.5)) {
                // the image comes back at another address: new ids for
                // classes that no loaded record mentions
                std::set<int> mentioned;
                for (auto& mm : mods)
                    if (mm.loaded)
                        for (int ri : mm.recs) {
                            auto& rec = g.p.recs[ri];
                            if (rec.kind == RK_CLASS)
                                mentioned.insert(rec.cls);
                            for (int b : rec.bases)
                                mentioned.insert(b);
                            for (int c : rec.vp)
                                mentioned.insert(c);
                        }
                for (int ri : mods[m].recs) {
                    auto& rec = g.p.recs[ri];
                    if (rec.kind != RK_CLASS || mentioned.count(rec.cls))
                        continue;
                    mentioned.insert(rec.cls);
                    Event e;
                    e.op = OP_RELOCATE;
                    e.cls = rec.cls;
                    e.ids = g.fresh_ids(
                        g.idfam, (int)g.p.w.ids[rec.cls].size(), g.used_ids);
                    g.p.events.push_back(e);
                }
            }
        }
        if (o.p_recycle > 0 && g.r.chance(o.p_recycle)) {
            std::vector<int> ms;
            for (auto& mm : mods)
                if (mm.loaded)
                    for (int ri : mm.recs)
                        if (g.p.recs[ri].kind == RK_METHOD)
                            ms.push_back(ri);
            if (!ms.empty()) {
                Event e;
                e.op = OP_RECYCLE;
                e.recs = {ms[g.r.below(ms.size())]};
                g.p.events.push_back(e);
                dirty = true;
            }
        }
        if (g.r.chance(0.55) || s == steps - 1) {
            auto& up = g.ev_update(pi);
            bool faulty = false;
            if (o.faults && g.r.chance(0.3)) {
                if (has_hash && (o.hash_faults_only || g.r.chance(0.6))) {
                    static const int budgets[] = {1, 1, 2, 3, 10};
                    up.hash_budget = budgets[g.r.below(5)];
                    up.hash_seed = 1 + g.r.below(1000000);
                } else if (!o.hash_faults_only) {
                    if (g.r.chance(0.5))
                        up.alloc_fail_from_end = (int)g.r.below(30);
                    else
                        up.alloc_fail_at = (long long)g.r.below(60);
                }
                faulty = up.hash_budget || up.alloc_fail_at >= 0 ||
                    up.alloc_fail_from_end >= 0;
            } else if (has_hash && g.r.chance(0.3)) {
                up.hash_seed = 1 + g.r.below(1000000);
            }
            if (faulty) {
                // repair: the next update carries no fault
                g.ev_update(pi);
            }
            if (o.twice && g.r.chance(0.25))
                g.ev_update(pi);
            dirty = false;
            if (g.r.chance(o.p_check) || s == steps - 1)
                g.ev_check(pi, routes);
        }
        (void)need_repair;
    }
    if (dirty) {
        g.ev_update(pi);
        g.ev_check(pi, routes);
    }
}

Plan gen_history(
    const std::string& prop, std::uint64_t seed, int tier, HistOpts o,
    const std::string& diff) {
    Gen g(seed, tier);
    g.p.prop = prop;
    g.p.profile = "history";
    g.p.diff = diff;
    std::string pol = o.b.pols[g.r.below(o.b.pols.size())];
    g.p.pols = {pol};
    basic_world(g, o.b, small_ids_policy(pol));
    auto mods = build_modules(g, o.b, 0);
    int steps = g.r.range(o.min_steps, tier ? o.max_steps * 2 : o.max_steps);
    history(g, o, 0, mods, steps, ROUTES_BASIC);
    g.p.heap_jitter = g.r.chance(0.3) ? (int)g.r.below(40) : 0;
    return g.p;
}

// ---------------------------------------------------------------------------
// per-property profiles

Plan gen_C01(std::uint64_t seed, int tier) {
    Rng r(seed ^ 0xC01);
    BasicOpts o;
    o.p_gadget = 0.15;
    o.max_alias = r.chance(0.2) ? 2 : 1;
    if (r.chance(0.25)) {
        HistOpts h;
        h.b = o;
        return gen_history("C01", seed, tier, h, "");
    }
    if (r.chance(0.3)) {
        // antichain-rich: wide ladders / DAGs, arity 2-3, many definitions
        o.family = r.chance(0.5) ? F_LADDER : F_DAG;
        o.min_cls = 6;
        o.max_cls = tier ? 16 : 12;
        o.slots = {4, 5, 6, 8, 12, 16, 17};
        o.min_defs = 4;
        o.max_defs = 12;
        o.focus = 0.9;
    }
    return gen_basic("C01", seed, tier, o);
}

// registry made of every record of policy pi (as if all were loaded)
Registry full_registry(const Plan& p, int pi, const std::set<int>& skip = {}) {
    Registry r;
    for (int i = 0; i < (int)p.recs.size(); ++i) {
        auto& rec = p.recs[i];
        if (rec.pol != pi || skip.count(i))
            continue;
        if (rec.kind == RK_CLASS)
            r.classes.push_back(i);
        else if (rec.kind == RK_METHOD) {
            r.methods.push_back(i);
            r.defs[i];
        }
    }
    for (int i = 0; i < (int)p.recs.size(); ++i) {
        auto& rec = p.recs[i];
        if (rec.pol == pi && rec.kind == RK_DEF && !skip.count(i) &&
            !skip.count(rec.meth))
            r.defs[rec.meth].push_back(i);
    }
    return r;
}

// whether the plan being generated allows objects whose dynamic class is
// abstract (Plan::abstract_args); a pure function of the seed, set by
// generate() before the profile runs
static bool g_abstract_args = false;

// legal argument classes of a method parameter
std::vector<int> legal_classes(const Lattice& L, int param_class) {
    std::vector<int> v;
    for (int c = 0; c < L.n; ++c)
        if (L.reg[c] && (!L.abstract[c] || g_abstract_args) &&
            L.le(c, param_class))
            v.push_back(c);
    return v;
}

// find a tuple of method mi whose outcome is an error (or a definition)
bool find_tuple(
    Gen& g, const Registry& r, const Lattice& L, int mi, bool want_error,
    std::vector<int>& tuple) {
    auto& m = g.p.recs[mi];
    std::vector<std::vector<int>> cand;
    for (int c : m.vp) {
        cand.push_back(legal_classes(L, c));
        if (cand.back().empty())
            return false;
    }
    auto it = r.defs.find(mi);
    std::vector<int> defs = it == r.defs.end() ? std::vector<int>() : it->second;
    for (int t = 0; t < 40; ++t) {
        tuple.clear();
        for (auto& c : cand)
            tuple.push_back(c[g.r.below(c.size())]);
        Res res = dispatch(g.p, L, defs, tuple);
        if ((res.kind != RES_DEF) == want_error)
            return true;
    }
    return false;
}

Event make_call(Gen& g, int pi, int mi, const std::vector<int>& tuple) {
    Event e;
    e.op = OP_CALL;
    e.pol = pi;
    e.meth = mi;
    e.args = tuple;
    e.aliases.assign(tuple.size(), 0);
    e.rts.assign(tuple.size(), RT_REF);
    e.mode = HM_THROW;
    return e;
}

Plan gen_C02(std::uint64_t seed, int tier) {
    Rng r(seed ^ 0xC02);
    BasicOpts o;
    o.max_alias = r.chance(0.15) ? 2 : 1;
    // sparse or clashing definitions: many erroring tuples
    o.min_defs = 0;
    o.max_defs = r.chance(0.5) ? 2 : 6;
    o.focus = r.chance(0.5) ? 0.2 : 0.9;
    o.min_cls = 2;
    o.max_cls = 9;
    o.min_meth = 1;
    o.max_meth = 3;
    o.p_gadget = 0.25;
    if (r.chance(0.3)) {
        // antichain-rich: many simultaneously applicable definitions, where
        // "more specific than every other" and "maximal" come apart
        static const int fams[] = {F_LADDER, F_DAG, F_JOIN, F_DIAMONDS};
        o.family = fams[r.below(4)];
        o.min_cls = 5;
        o.max_cls = tier ? 16 : 12;
        o.slots = {4, 5, 6, 8, 12, 16, 17};
        o.min_defs = 3;
        o.max_defs = 12;
        o.focus = 0.9;
    }
    Plan p = gen_basic("C02", seed, tier, o);
    p.profile = "errors" + p.profile.substr(5);
    // the handler throws out of the same erroring call many times in a row:
    // nothing may accumulate ("later calls still dispatch correctly")
    if (r.chance(0.35)) {
        Gen g(seed ^ 0xAB1, tier);
        g.p = p;
        Registry reg = full_registry(p, 0);
        Lattice L = make_lattice(p, reg);
        if (!reg.methods.empty()) {
            int mi = reg.methods[r.below(reg.methods.size())];
            std::vector<int> tuple;
            if (find_tuple(g, reg, L, mi, true, tuple)) {
                Event e = make_call(g, 0, mi, tuple);
                e.repeat = r.range(20, 70);
                p.events.push_back(e);
                std::vector<int> good;
                if (find_tuple(g, reg, L, mi, false, good))
                    p.events.push_back(make_call(g, 0, mi, good));
            }
        }
    }
    // fault: the handler returns (or is the shipped default) -> abort
    if (p.pols[0] != "thr" && r.chance(0.12)) {
        Gen g(seed ^ 0xAB0, tier);
        g.p = p;
        Registry reg = full_registry(p, 0);
        Lattice L = make_lattice(p, reg);
        int n = r.range(1, 2);
        for (int i = 0; i < n && !reg.methods.empty(); ++i) {
            int mi = reg.methods[r.below(reg.methods.size())];
            std::vector<int> tuple;
            if (!find_tuple(g, reg, L, mi, true, tuple))
                continue;
            Event e = make_call(g, 0, mi, tuple);
            e.fork = 1;
            e.mode = r.chance(0.7) ? HM_RETURNS : HM_DEFAULT;
            e.resolve = 0;
            p.events.push_back(e);
        }
        // and calls still dispatch afterwards (the parent never aborted)
        g.p = p;
        g.ev_check(0, 1, 60);
        p = g.p;
    }
    return p;
}

// ---------------------------------------------------------------------------
// C09: virtual_ptr lifetimes interleaved with updates

Plan gen_C09(std::uint64_t seed, int tier) {
    Gen g(seed, tier);
    g.p.prop = "C09";
    g.p.profile = "vptr";
    static const std::vector<std::string> pols = {
        "dbg", "rel", "vec", "map", "ind", "ind", "cind", "cind", "thr",
        "sdbg", "srel", "shr"};
    std::string pol = pols[g.r.below(pols.size())];
    bool indirect = pol == "ind" || pol == "cind";
    g.p.pols = {pol};
    BasicOpts o;
    o.max_cls = 9;
    o.max_alias = g.r.chance(0.25) && !no_alias_policy(pol) ? 2 : 1;
    o.p_abstract = 0.08;
    basic_world(g, o, small_ids_policy(pol));
    int n = g.p.w.ncls;
    // module A: the core classes, 1-3 pointer-taking methods and their
    // definitions; some leaf classes belong to module B, which comes and
    // goes: the class set, and with it the hash function and the v-table
    // pointer tables, change between updates while pointers are alive
    std::vector<int> A;
    std::vector<int> B;
    std::set<int> extra;
    for (int c = n - 1; c >= 1 && (int)extra.size() < 3; --c)
        if (g.desc[c] == (1u << c) && g.r.chance(0.6))
            extra.insert(c);
    if ((int)extra.size() >= n - 1)
        extra.clear();
    auto cr = g.class_recs(0, g.r.chance(0.5) ? ST_COMPLETE : -1, o.max_alias > 1);
    for (int c = 0; c < n; ++c)
        for (int ri : cr[c])
            (extra.count(c) ? B : A).push_back(ri);
    // the methods and definitions of module A only mention core classes
    for (int c : extra) {
        g.desc[c] = 0;
        for (int b = 0; b < n; ++b)
            g.desc[b] &= ~(1u << c);
    }
    std::vector<int> meths, bmeths;
    for (int s : g.pick_slots(VP_SLOTS, g.r.range(1, 3))) {
        int mi = g.method(0, s, 0.8);
        meths.push_back(mi);
        A.push_back(mi);
        for (int di : g.defs(0, mi, g.r.range(1, 6), 0.7))
            A.push_back(di);
    }
    // module B, loaded later: its classes, and another method with many
    // definitions, so that the dispatch data grows and is reallocated by the
    // next update
    g.closure();
    {
        int mi = g.method(0, g.r.chance(0.5) ? 10 : 8, 0.9);
        B.push_back(mi);
        for (int di : g.defs(0, mi, g.r.range(3, 10), 0.5))
            B.push_back(di);
        int m2 = g.method(0, g.r.chance(0.5) ? 4 : 0, 0.5);
        B.push_back(m2);
        for (int di : g.defs(0, m2, g.r.range(1, 5), 0.5))
            B.push_back(di);
        // ... and, in half of the runs, a pointer-taking method on root-ish
        // classes: classes that had no method at all when a pointer to one of
        // their objects was made get their first one (seeded change C09-p)
        if (g.r.chance(0.5)) {
            std::set<int> taken;
            for (int mi : meths)
                taken.insert(g.p.recs[mi].slot);
            std::vector<int> free_vp;
            for (int s : VP_SLOTS)
                if (!taken.count(s))
                    free_vp.push_back(s);
            if (!free_vp.empty()) {
                int m3 = g.method(0, free_vp[g.r.below(free_vp.size())], 0.95);
                B.push_back(m3);
                bmeths.push_back(m3);
                for (int di : g.defs(0, m3, g.r.range(1, 4), 0.6))
                    B.push_back(di);
            }
        }
    }
    g.ev_load(g.order(A));
    g.ev_update(0);
    // every construction route, including the shared_ptr value categories
    int routes = ROUTES_BASIC | (1 << 5) | (1 << 6);
    g.ev_check(0, routes, 120);

    Registry reg = full_registry(g.p, 0, std::set<int>(B.begin(), B.end()));
    Lattice L = make_lattice(g.p, reg);
    struct H {
        bool live = false, shared = false;
        int cls = 0;
        int epoch = 0;
    } held[MAXVP];
    int epoch = 1;
    bool b_loaded = false, b_usable = false;
    auto use = [&](int mi) {
        auto& m = g.p.recs[mi];
        std::string kinds = SLOT_KINDS[m.slot];
        std::vector<char> vk;
        for (char c : kinds)
            if (c != 'I')
                vk.push_back(c);
        Event e;
        e.op = OP_VP_USE;
        e.pol = 0;
        e.meth = mi;
        bool any = false;
        for (std::size_t i = 0; i < m.vp.size(); ++i) {
            int pick = -1;
            if (vk[i] == 'Q' || vk[i] == 'C' || vk[i] == 'W') {
                std::vector<int> ok;
                for (int k = 0; k < MAXVP; ++k)
                    if (held[k].live && held[k].shared == (vk[i] == 'W') &&
                        L.le(held[k].cls, m.vp[i]) &&
                        (indirect || held[k].epoch == epoch))
                        ok.push_back(k);
                if (!ok.empty() && g.r.chance(0.85))
                    pick = ok[g.r.below(ok.size())];
            }
            if (pick >= 0) {
                e.args.push_back(0x1000 + pick);
                any = true;
            } else {
                auto lc = legal_classes(L, m.vp[i]);
                if (lc.empty())
                    return;
                e.args.push_back(lc[g.r.below(lc.size())]);
            }
            e.aliases.push_back(0);
        }
        if (any)
            g.p.events.push_back(e);
    };
    int steps = g.r.range(4, tier ? 30 : 16);
    for (int s = 0; s < steps; ++s) {
        int what = (int)g.r.below(10);
        if (what < 4) {
            // make a pointer to an object acceptable to one of the methods
            int mi = meths[g.r.below(meths.size())];
            auto& m = g.p.recs[mi];
            std::string kinds = SLOT_KINDS[m.slot];
            std::vector<char> vk;
            for (char c : kinds)
                if (c != 'I')
                    vk.push_back(c);
            int pos = (int)g.r.below(m.vp.size());
            if (vk[pos] != 'Q' && vk[pos] != 'C' && vk[pos] != 'W')
                continue;
            auto lc = legal_classes(L, m.vp[pos]);
            // sometimes a pointer to an object of any registered class: it
            // may have no method at all yet
            if (g.r.chance(0.3)) {
                lc.clear();
                for (int c = 0; c < L.n; ++c)
                    if (L.reg[c] && (!L.abstract[c] || g_abstract_args))
                        lc.push_back(c);
            }
            if (lc.empty())
                continue;
            Event e;
            e.op = OP_VP_MAKE;
            e.pol = 0;
            e.vslot = (int)g.r.below(MAXVP);
            e.cls = lc[g.r.below(lc.size())];
            e.alias = 0;
            e.shared = vk[pos] == 'W';
            e.route = (int)g.r.below(e.shared ? 8 : RT_COUNT);
            g.p.events.push_back(e);
            held[e.vslot] = {true, e.shared != 0, e.cls, epoch};
        } else if (what < 5) {
            std::vector<int> live;
            for (int k = 0; k < MAXVP; ++k)
                if (held[k].live)
                    live.push_back(k);
            if (live.empty())
                continue;
            Event e;
            e.op = OP_VP_COPY;
            e.pol = 0;
            e.vfrom = live[g.r.below(live.size())];
            e.vslot = (int)g.r.below(MAXVP);
            if (e.vslot == e.vfrom)
                continue;
            e.route = (int)g.r.below(2);
            g.p.events.push_back(e);
            held[e.vslot] = held[e.vfrom];
        } else if (what < 8) {
            if (b_usable && !bmeths.empty() && g.r.chance(0.5))
                use(bmeths[g.r.below(bmeths.size())]);
            else
                use(meths[g.r.below(meths.size())]);
        } else if (what < 9) {
            // an update in the middle of the pointers' lives
            // the same construction immediately before and after the update
            // (anything remembered from the first must not serve the second)
            Event before;
            bool pattern = g.r.chance(0.5);
            if (pattern) {
                pattern = false;
                int mi = meths[g.r.below(meths.size())];
                auto& m = g.p.recs[mi];
                std::string kinds = SLOT_KINDS[m.slot];
                std::vector<char> vk;
                for (char c : kinds)
                    if (c != 'I')
                        vk.push_back(c);
                int pos = (int)g.r.below(m.vp.size());
                auto lc = legal_classes(L, m.vp[pos]);
                if ((vk[pos] == 'Q' || vk[pos] == 'C' || vk[pos] == 'W') && !lc.empty()) {
                    before.op = OP_VP_MAKE;
                    before.pol = 0;
                    before.vslot = (int)g.r.below(MAXVP);
                    before.cls = lc[g.r.below(lc.size())];
                    before.alias = 0;
                    before.shared = vk[pos] == 'W';
                    before.route = g.r.chance(0.7) ? RT_REF : (int)g.r.below(before.shared ? 8 : RT_COUNT);
                    g.p.events.push_back(before);
                    held[before.vslot] = {true, before.shared != 0, before.cls, epoch};
                    pattern = true;
                }
            }
            if (g.r.chance(0.6)) {
                if (!b_loaded)
                    g.ev_load(g.order(B));
                else {
                    auto rv = B;
                    std::stable_sort(rv.begin(), rv.end(), [&](int a, int b) {
                        return g.p.recs[a].kind == RK_DEF &&
                            g.p.recs[b].kind != RK_DEF;
                    });
                    g.ev_unload(rv);
                }
                b_loaded = !b_loaded;
            }
            g.ev_update(0);
            ++epoch;
            b_usable = b_loaded;
            if (pattern) {
                Event after = before;
                after.vslot = (before.vslot + 1) % MAXVP;
                g.p.events.push_back(after);
                held[after.vslot] = {true, after.shared != 0, after.cls, epoch};
            }
            if (g.r.chance(0.3))
                g.ev_check(0, routes, 60);
        } else {
            Event e;
            e.op = OP_VP_DROP;
            e.pol = 0;
            e.vslot = (int)g.r.below(MAXVP);
            g.p.events.push_back(e);
            held[e.vslot].live = false;
        }
    }
    for (int mi : meths)
        use(mi);
    if (b_usable)
        for (int mi : bmeths)
            use(mi);
    return g.p;
}

// ---------------------------------------------------------------------------
// C15: the fault "lost registration", at every place a class can occur

Plan gen_C15(std::uint64_t seed, int tier) {
    Gen g(seed, tier);
    g.p.prop = "C15";
    g.p.profile = "lost-registration";
    g.p.allow_missing = 1;
    static const std::vector<std::string> pols = {"dbg", "dbg", "cind", "sdbg",
                                                  "sdbg", "dfr"};
    std::string pol = pols[g.r.below(pols.size())];
    g.p.pols = {pol};
    BasicOpts o;
    o.min_cls = 2;
    o.max_cls = 8;
    o.p_abstract = 0.05;
    o.max_meth = 3;
    o.min_meth = 1;
    o.max_defs = 4;
    basic_world(g, o, false);
    auto all = basic_registry(g, o, 0);
    int n = g.p.w.ncls;
    int place = (int)g.r.below(7);
    g.p.profile += "/place" + std::to_string(place);
    auto class_recs_of = [&](int c) {
        std::set<int> s;
        for (int ri : all)
            if (g.p.recs[ri].kind == RK_CLASS && g.p.recs[ri].cls == c)
                s.insert(ri);
        return s;
    };
    auto refs_class = [&](int ri, int c) {
        auto& rec = g.p.recs[ri];
        if (rec.kind == RK_CLASS)
            return std::find(rec.bases.begin(), rec.bases.end(), c) !=
                rec.bases.end() &&
                rec.cls != c;
        return std::find(rec.vp.begin(), rec.vp.end(), c) != rec.vp.end();
    };
    auto without = [&](const std::set<int>& skip) {
        std::vector<int> v;
        for (int ri : all)
            if (!skip.count(ri) &&
                !(g.p.recs[ri].kind == RK_DEF && skip.count(g.p.recs[ri].meth)))
                v.push_back(ri);
        return v;
    };
    if (place <= 2) {
        // the class is referenced (base list / method / definition parameter)
        // but has no record of its own: update must report it
        std::vector<int> cand;
        for (int c = 0; c < n; ++c) {
            bool refd = false;
            for (int ri : all) {
                auto& rec = g.p.recs[ri];
                if (place == 0 && rec.kind == RK_CLASS && refs_class(ri, c))
                    refd = true;
                if (place == 1 && rec.kind == RK_METHOD && refs_class(ri, c))
                    refd = true;
                if (place == 2 && rec.kind == RK_DEF && refs_class(ri, c))
                    refd = true;
            }
            if (refd)
                cand.push_back(c);
        }
        if (cand.empty()) {
            g.ev_load(g.order(all));
            g.ev_update(0);
            g.ev_check(0, 1, 100);
            return g.p;
        }
        int victim = cand[g.r.below(cand.size())];
        auto lost = class_recs_of(victim);
        g.ev_load(g.order(without(lost)));
        auto& up = g.ev_update(0);
        if (pol != "dfr" && g.r.chance(0.3)) {
            up.fork = 1;
            up.mode = HM_RETURNS;
            g.ev_update(0); // and with a throwing handler, in this process
        }
        // repair: the registration arrives, the next update is clean
        g.ev_load(std::vector<int>(lost.begin(), lost.end()));
        g.ev_update(0);
        g.ev_check(0, 1, 150);
        return g.p;
    }
    // places 3-6: the class is not mentioned by any registration; it shows
    // up as the dynamic class of an argument
    std::vector<int> leaves;
    for (int c = 0; c < n; ++c)
        if (g.desc[c] == (1u << c) && !g.p.w.abstract[c] &&
            !g.p.w.parents[c].empty())
            leaves.push_back(c);
    if (leaves.empty() || place == 6) {
        // final with another dynamic type
        g.ev_load(g.order(all));
        g.ev_update(0);
        Registry reg = full_registry(g.p, 0);
        Lattice L = make_lattice(g.p, reg);
        for (int mi : reg.methods) {
            auto& m = g.p.recs[mi];
            std::string kinds = SLOT_KINDS[m.slot];
            std::vector<char> vk;
            for (char c : kinds)
                if (c != 'I')
                    vk.push_back(c);
            std::vector<int> tuple;
            if (!find_tuple(g, reg, L, mi, false, tuple) &&
                !find_tuple(g, reg, L, mi, true, tuple))
                continue;
            for (std::size_t i = 0; i < vk.size(); ++i) {
                if (vk[i] != 'Q' && vk[i] != 'C')
                    continue;
                Event e = make_call(g, 0, mi, tuple);
                e.rts[i] = RT_FINAL | 0x100;
                if (g.r.chance(0.3)) {
                    e.fork = 1;
                    e.mode = HM_RETURNS;
                }
                g.p.events.push_back(e);
                break;
            }
        }
        g.ev_check(0, ROUTES_BASIC, 100);
        return g.p;
    }
    int victim = leaves[g.r.below(leaves.size())];
    std::set<int> lost = class_recs_of(victim);
    for (int ri : all)
        if (g.p.recs[ri].kind != RK_CLASS && refs_class(ri, victim))
            lost.insert(ri);
    if (g.r.chance(0.5)) {
        // the class was registered once, and its registration went away
        // (a library was unloaded): it is unregistered all the same
        g.p.profile += "/unregistered";
        g.ev_load(g.order(all));
        g.ev_update(0);
        if (g.r.chance(0.5))
            g.ev_check(0, ROUTES_BASIC, 60);
        std::vector<int> gone;
        for (int ri : all)
            if (lost.count(ri) ||
                (g.p.recs[ri].kind == RK_DEF && lost.count(g.p.recs[ri].meth)))
                gone.push_back(ri);
        std::stable_sort(gone.begin(), gone.end(), [&](int a, int b) {
            return g.p.recs[a].kind == RK_DEF && g.p.recs[b].kind != RK_DEF;
        });
        g.ev_unload(gone);
    } else
        g.ev_load(g.order(without(lost)));
    g.ev_update(0);
    Registry reg = full_registry(g.p, 0, lost);
    // definitions of lost methods are gone too
    for (int ri : all)
        if (g.p.recs[ri].kind == RK_DEF && lost.count(g.p.recs[ri].meth))
            lost.insert(ri);
    reg = full_registry(g.p, 0, lost);
    Lattice L = make_lattice(g.p, reg);
    int made = 0;
    for (int mi : reg.methods) {
        auto& m = g.p.recs[mi];
        std::string kinds = SLOT_KINDS[m.slot];
        std::vector<char> vk;
        for (char c : kinds)
            if (c != 'I')
                vk.push_back(c);
        for (std::size_t i = 0; i < m.vp.size(); ++i) {
            if (!((g.anc[victim] >> m.vp[i]) & 1u))
                continue; // the object could not be passed here
            std::vector<int> tuple;
            bool ok = true;
            for (std::size_t j = 0; j < m.vp.size(); ++j) {
                if (j == i) {
                    tuple.push_back(victim);
                    continue;
                }
                auto lc = legal_classes(L, m.vp[j]);
                if (lc.empty()) {
                    ok = false;
                    break;
                }
                tuple.push_back(lc[g.r.below(lc.size())]);
            }
            if (!ok)
                continue;
            Event e = make_call(g, 0, mi, tuple);
            if (vk[i] == 'Q' || vk[i] == 'C') {
                static const int rts[] = {RT_REF, RT_EXACT, RT_COPY, RT_MOVE};
                e.rts[i] = rts[g.r.below(4)];
            } else if (vk[i] == 'W') {
                static const int rts[] = {RT_REF, RT_EXACT, RT_COPY, RT_MOVE};
                e.rts[i] = rts[g.r.below(4)];
            }
            e.resolve = g.r.chance(0.3);
            if (g.r.chance(0.25) && pol != "dfr") {
                e.fork = 1;
                e.mode = g.r.chance(0.7) ? HM_RETURNS : HM_DEFAULT;
                e.resolve = 0;
            }
            g.p.events.push_back(e);
            ++made;
        }
    }
    // virtual_ptr construction alone
    if (place >= 4 || !made) {
        for (int k = 0; k < 2; ++k) {
            Event e;
            e.op = OP_VP_MAKE;
            e.pol = 0;
            e.vslot = k;
            e.cls = victim;
            e.alias = 0;
            e.shared = g.r.chance(0.3);
            static const int rts[] = {RT_REF, RT_EXACT, RT_COPY, RT_MOVE};
            e.route = rts[g.r.below(4)];
            g.p.events.push_back(e);
        }
    }
    // the process survived the reports: everything else still dispatches
    g.ev_check(0, ROUTES_BASIC, 100);
    // repair
    std::vector<int> back;
    for (int ri : all)
        if (lost.count(ri))
            back.push_back(ri);
    g.ev_load(g.order(back));
    g.ev_update(0);
    g.ev_check(0, ROUTES_BASIC, 100);
    return g.p;
}

// C05, registry part: id families, growing and shrinking registries,
// exhausted search budgets, seeded searches
Plan gen_C05(std::uint64_t seed, int tier) {
    Rng r(seed ^ 0xC05);
    HistOpts h;
    h.b.pols = {"dbg", "dbg", "rel", "ind", "cind", "thr", "dfr", "sdbg", "srel",
                "shr"};
    h.b.min_cls = 1;
    h.b.max_cls = tier ? 28 : 20;
    h.b.max_alias = r.chance(0.5) ? 3 : 1;
    h.b.max_meth = 2;
    h.b.max_defs = 3;
    h.faults = true;
    h.relocate = true;
    h.min_steps = 3;
    h.max_steps = 12;
    h.hash_faults_only = true;
    return gen_history("C05", seed, tier, h, "");
}

Plan gen_C03(std::uint64_t seed, int tier) {
    Rng r(seed ^ 0xC03);
    BasicOpts o;
    o.max_alias = r.chance(0.15) ? 2 : 1;
    o.p_gadget = 0.15;
    o.min_defs = 2;
    o.max_defs = 12;
    o.focus = 0.85;
    o.min_cls = 3;
    if (r.chance(0.5)) {
        HistOpts h;
        h.b = o;
        h.min_steps = 4;
        return gen_history("C03", seed, tier, h, "");
    }
    return gen_basic("C03", seed, tier, o);
}

Plan gen_C04(std::uint64_t seed, int tier) {
    Rng r(seed ^ 0xC04);
    BasicOpts o;
    o.max_alias = r.chance(0.15) ? 2 : 1;
    static const int fams[] = {F_DAG, F_DAG, F_DIAMONDS, F_LADDER, F_BOOLEAN,
                               F_WIDE, F_TREE, F_JOIN, F_JOIN};
    o.family = fams[r.below(9)];
    o.min_cls = 3;
    o.max_cls = tier ? 20 : 12;
    o.min_meth = 2;
    o.max_meth = 7;
    o.max_defs = 3;
    o.root_bias = 0.3; // parameters anywhere in the lattice
    if (r.chance(0.3)) {
        // the dispatch data is re-sized by every update of a history
        HistOpts h;
        h.b = o;
        h.b.max_meth = 5;
        h.min_steps = 4;
        h.max_steps = 14;
        h.faults = r.chance(0.3);
        return gen_history("C04", seed, tier, h, "");
    }
    return gen_basic("C04", seed, tier, o);
}

Plan gen_C17(std::uint64_t seed, int tier) {
    Rng r(seed ^ 0xC17);
    BasicOpts o;
    o.max_alias = r.chance(0.15) ? 2 : 1;
    o.p_gadget = 0.1;
    o.p_abstract = r.chance(0.5) ? 0.35 : 0.2;
    o.max_defs = 7;
    o.slots = REF_SLOTS;
    return gen_basic("C17", seed, tier, o);
}

Plan gen_C06(std::uint64_t seed, int tier) {
    Rng r(seed ^ 0xC06);
    BasicOpts o;
    o.max_alias = r.chance(0.15) ? 2 : 1;
    o.p_gadget = 0.25;
    o.min_defs = 2;
    o.max_defs = 10;
    o.focus = 0.85;
    if (r.chance(0.5)) {
        o.family = r.chance(0.5) ? F_LADDER : F_DAG;
        o.min_cls = 5;
        o.slots = {4, 5, 6, 8, 12, 16, 17};
    }
    Plan p = gen_basic("C06", seed, tier, o);
    p.diff = "orders";
    // the other static-initialisation orders of the same registry
    Gen g(seed ^ 0x0DE5, tier);
    g.p = p;
    int k = tier ? 8 : 3;
    if (p.events[0].recs.size() <= 5) {
        // small registry: every registration order (definitions after their
        // method), a by-product of small plans
        std::vector<int> perm = p.events[0].recs;
        std::sort(perm.begin(), perm.end());
        do {
            bool legal = true;
            for (std::size_t i = 0; i < perm.size() && legal; ++i)
                if (p.recs[perm[i]].kind == RK_DEF)
                    legal = std::find(perm.begin(), perm.begin() + i,
                                      p.recs[perm[i]].meth) != perm.begin() + i;
            if (legal)
                p.orders.push_back(perm);
        } while (std::next_permutation(perm.begin(), perm.end()));
        k = 0;
    }
    for (int i = 0; i < k; ++i)
        p.orders.push_back(g.order(p.events[0].recs));
    if (p.events[0].recs.size() >= 2) {
        auto rev = p.events[0].recs;
        std::reverse(rev.begin(), rev.end());
        // reversed, with definitions still after their methods
        std::stable_sort(rev.begin(), rev.end(), [&](int a, int b) {
            return p.recs[a].kind != RK_DEF && p.recs[b].kind == RK_DEF;
        });
        p.orders.push_back(rev);
    }
    return p;
}

Plan gen_C07(std::uint64_t seed, int tier) {
    Rng r(seed ^ 0xC07);
    HistOpts h;
    h.b.pols = {"dbg", "rel", "vec", "map", "ind", "cind", "thr",
                "sdbg", "srel", "dfr", "dfv", "shr"};
    h.faults = r.chance(0.4);
    h.relocate = r.chance(0.4);
    h.p_recycle = r.chance(0.25) ? 0.12 : 0.0;
    h.min_steps = 3;
    h.max_steps = 14;
    h.b.max_alias = r.chance(0.2) ? 2 : 1;
    return gen_history("C07", seed, tier, h, "fresh");
}

Plan gen_C08(std::uint64_t seed, int tier) {
    Rng r(seed ^ 0xC08);
    BasicOpts o;
    static const int fams[] = {F_DAG, F_DAG, F_DIAMONDS, F_LADDER, F_BOOLEAN,
                               F_WIDE, F_TREE, F_CHAIN, F_JOIN, F_JOIN};
    o.family = fams[r.below(10)];
    static const int styles[] = {ST_DIRECT, ST_DIRECT_SELF, ST_MIXED, ST_SPLIT,
                                 -1};
    o.style = styles[r.below(5)];
    o.max_alias = r.chance(0.3) ? 3 : 1; // several ids per class, also in base lists
    o.min_cls = 3;
    o.max_cls = tier ? 18 : 11;
    o.min_meth = 1;
    o.max_meth = 5;
    o.max_defs = 6;
    o.root_bias = 0.4;
    Plan p = gen_basic("C08", seed, tier, o);
    p.diff = "canonical";
    return p;
}

Plan gen_C10(std::uint64_t seed, int tier) {
    Gen g(seed, tier);
    g.p.prop = "C10";
    g.p.profile = "flavours";
    g.p.diff = "flavours";
    // one abstract registry instantiated on sibling policies
    std::vector<std::string> pool = {"dbg", "rel", "vec", "map", "ind",
                                     "thr", "dfr", "dfv", "sdbg", "srel",
                                     "shr"};
    g.r.shuffle(pool);
    int np = g.r.range(2, tier ? 5 : 3);
    pool.resize(np);
    g.p.pols = pool;
    bool small = false, noalias = false;
    for (auto& n : pool) {
        small = small || small_ids_policy(n);
        noalias = noalias || no_alias_policy(n);
    }
    BasicOpts o;
    o.max_alias = g.r.chance(0.5) ? 3 : 1;
    o.max_cls = 9;
    o.slots = ALL_SLOTS;
    basic_world(g, o, small);
    // records for policy 0, cloned for the others
    int style = g.r.chance(0.5) ? (int)g.r.below(ST_COUNT) : -1;
    std::vector<int> base, slots;
    {
        auto cr = g.class_recs(0, style, o.max_alias > 1);
        for (auto& v : cr)
            for (int ri : v)
                base.push_back(ri);
        int nm = g.r.range(1, 3);
        slots = g.pick_slots(o.slots, nm + 2);
        for (int k = 0; k < nm; ++k) {
            int mi = g.method(0, slots[k], o.root_bias);
            base.push_back(mi);
            for (int di : g.defs(0, mi, g.r.range(0, 7), o.focus))
                base.push_back(di);
        }
        slots.erase(slots.begin(), slots.begin() + nm);
    }
    // a second module, for histories in which the registry changes between
    // updates (the same change under every flavour)
    std::vector<int> later;
    if (g.r.chance(0.45)) {
        int nm = g.r.range(1, 2);
        for (int k = 0; k < nm; ++k) {
            int mi = g.method(0, slots[k], o.root_bias);
            later.push_back(mi);
            for (int di : g.defs(0, mi, g.r.range(0, 5), o.focus))
                later.push_back(di);
        }
        // ... and brings further definitions of methods the first update
        // already saw (seeded change C10-m: ids of a definition that arrives
        // after its method's first update)
        for (int ri : std::vector<int>(base)) {
            if (g.p.recs[ri].kind != RK_METHOD || !g.r.chance(0.6))
                continue;
            int have = 0;
            for (int rj : base)
                if (g.p.recs[rj].kind == RK_DEF && g.p.recs[rj].meth == ri)
                    ++have;
            for (int di : g.defs(0, ri, g.r.range(1, 3), o.focus, have))
                later.push_back(di);
        }
    }
    std::vector<std::vector<int>> per_pol(np), later_pol(np);
    per_pol[0] = base;
    later_pol[0] = later;
    for (int pi = 1; pi < np; ++pi) {
        std::map<int, int> remap;
        for (int phase = 0; phase < 2; ++phase)
            for (int ri : phase ? later : base) {
                Rec c = g.p.recs[ri];
                c.pol = pi;
                if (c.kind == RK_CLASS && no_alias_policy(pool[pi]))
                    c.alias = 0; // one id per class under std_rtti
                if (c.kind == RK_DEF)
                    c.meth = remap[c.meth];
                remap[ri] = g.add(c);
                (phase ? later_pol : per_pol)[pi].push_back(remap[ri]);
            }
    }
    std::uint64_t sample = g.r.next();
    int nup = g.r.range(1, 3);
    for (int pi = 0; pi < np; ++pi)
        g.ev_load(g.order(per_pol[pi]));
    for (int pi = 0; pi < np; ++pi) {
        for (int u = 0; u < nup; ++u)
            g.ev_update(pi);
        auto& ck = g.ev_check(pi, ROUTES_BASIC);
        ck.sample_seed = sample; // same tuples under every flavour
    }
    if (!later.empty()) {
        // some definitions of the first module go away, the second arrives
        std::vector<std::size_t> gone;
        for (std::size_t k = 0; k < base.size(); ++k)
            if (g.p.recs[base[k]].kind == RK_DEF && g.r.chance(0.25))
                gone.push_back(k);
        std::uint64_t sample2 = g.r.next();
        std::uint64_t oseed = g.r.next();
        for (int pi = 0; pi < np; ++pi) {
            std::vector<int> un;
            for (auto k : gone)
                un.push_back(per_pol[pi][k]);
            if (!un.empty())
                g.ev_unload(un);
            Rng keep = g.r;
            g.r = Rng(oseed); // the same order under every flavour
            auto ord = g.order(later_pol[pi]);
            g.r = keep;
            g.ev_load(ord);
        }
        for (int pi = 0; pi < np; ++pi) {
            g.ev_update(pi);
            auto& ck = g.ev_check(pi, ROUTES_BASIC);
            ck.sample_seed = sample2;
        }
    }
    return g.p;
}

Plan gen_C18(std::uint64_t seed, int tier) {
    Rng r(seed ^ 0xC18);
    HistOpts h;
    h.b.pols = {"dbg", "rel", "vec", "map", "ind", "cind", "thr",
                "sdbg", "srel", "shr"};
    h.b.max_defs = 8;
    h.b.max_meth = 4;
    h.min_steps = 6;
    h.max_steps = 30;
    h.p_check = 0.2;
    h.twice = false;
    h.p_recycle = r.chance(0.4) ? 0.15 : 0.0;
    return gen_history("C18", seed, tier, h, "");
}

Plan gen_C14(std::uint64_t seed, int tier) {
    Gen g(seed, tier);
    g.p.prop = "C14";
    g.p.profile = "isolation";
    std::vector<std::string> pool = {"dbg", "rel", "vec", "map", "ind",
                                     "cind", "thr", "sdbg", "srel", "mapx",
                                     "mapy", "relx", "vecx", "shr"};
    g.r.shuffle(pool);
    int np = g.r.range(2, 3);
    pool.resize(np);
    if (g.r.chance(0.35)) {
        // a policy next to the one it was rebound / derived from
        static const char* pairs[][2] = {{"mapx", "mapy"}, {"rel", "relx"},
                                         {"ind", "vecx"}, {"mapy", "mapx"}};
        auto& pr = pairs[g.r.below(4)];
        pool[0] = pr[0];
        pool[1] = pr[1];
        if (np > 2 && (pool[2] == pool[0] || pool[2] == pool[1]))
            pool.resize(2), np = 2;
    }
    g.p.pols = pool;
    bool small = false;
    for (auto& n : pool)
        small = small || small_ids_policy(n);
    BasicOpts o;
    o.max_cls = 8;
    o.max_meth = 2;
    o.max_defs = 5;
    o.slots = REF_SLOTS;
    o.max_alias = g.r.chance(0.4) ? 3 : 1;
    basic_world(g, o, small);
    // sometimes: also compare each policy with itself alone in a pristine
    // process (what another policy did earlier must not matter)
    if (g.r.chance(0.3))
        g.p.diff = "solo";
    // each policy has its own modules over the same classes and ids
    std::vector<std::vector<Module>> mods(np);
    for (int pi = 0; pi < np; ++pi)
        mods[pi] = build_modules(g, o, pi);
    HistOpts h;
    h.b = o;
    h.faults = g.r.chance(0.3);
    h.p_check = 0.5;
    int rounds = g.r.range(3, tier ? 10 : 6);
    for (int k = 0; k < rounds; ++k) {
        int pi = (int)g.r.below(np);
        history(g, h, pi, mods[pi], g.r.range(1, 3), 1);
        if (g.r.chance(0.3) && !h.faults) {
            // (with update faults the handler must be ours: the shipped one
            // returns and the library aborts by design)
            auto& n = pool[pi];
            if (n == "dbg" || n == "rel")
                g.ev_handler(pi, g.r.chance(0.5) ? HM_CALL_ERROR : HM_THROW);
            else if (n != "thr")
                g.ev_handler(pi, HM_THROW); // installs the same handler again
        }
    }
    return g.p;
}

// C16: policy A is set up and updated before the threads start; the events
// after setup_events are the script of the task that works on policy B
Plan gen_C16(std::uint64_t seed, int tier) {
    Gen g(seed, tier);
    g.p.prop = "C16";
    g.p.profile = "sched";
    std::vector<std::string> pool = {"rel", "dbg", "ind", "map",
                                     "cind", "sdbg", "thr", "vec"};
    g.r.shuffle(pool);
    pool.resize(2);
    // the callers' policy dispatches through generated static offsets
    bool static_offsets = g.r.chance(0.12);
    if (static_offsets)
        pool[0] = "sofd";
    else if (g.r.chance(0.15)) {
        // callers on a policy, update of the one it was rebound / derived
        // from (or the other way round): whatever the two still share is
        // written by update while the callers read it (seeded change C16-m)
        static const char* const fam[][2] = {
            {"mapx", "mapy"}, {"rel", "relx"}, {"ind", "vecx"}};
        auto& f = fam[g.r.below(3)];
        bool swap = g.r.chance(0.5);
        pool[0] = f[swap ? 1 : 0];
        pool[1] = f[swap ? 0 : 1];
    }
    g.p.pols = pool;
    bool small = small_ids_policy(pool[0]) || small_ids_policy(pool[1]);
    BasicOpts o;
    o.max_cls = 8;
    o.min_meth = 2;
    o.max_meth = 4;
    o.max_defs = 6;
    o.p_abstract = 0.08;
    o.max_alias = !no_alias_policy(pool[0]) && !no_alias_policy(pool[1]) &&
            g.r.chance(0.2)
        ? 2
        : 1;
    basic_world(g, o, small);
    auto all = basic_registry(g, o, 0);
    g.ev_load(g.order(all));
    g.ev_update(0);
    if (static_offsets) {
        Event e;
        e.op = OP_OFFSETS;
        e.pol = 0;
        e.per_method = (int)g.r.below(2);
        g.p.events.push_back(e);
    }
    BasicOpts ob = o;
    ob.min_meth = 1;
    ob.max_meth = 2;
    ob.slots = REF_SLOTS;
    auto mods = build_modules(g, ob, 1);
    HistOpts h;
    h.b = ob;
    h.faults = g.r.chance(0.3);
    h.p_check = 0.6;
    // B is loaded and updated once before the threads start
    history(g, h, 1, mods, 2, 1);
    g.p.setup_events = (int)g.p.events.size();
    history(g, h, 1, mods, g.r.range(2, tier ? 10 : 5), 1);
    return g.p;
}

} // namespace

// ---------------------------------------------------------------------------
// C12: static offsets. One registry on a baseline policy (stock debug or
// release shape, offsets read at run time) and on its twin whose methods all
// have static_offsets<> specialisations; after every update of the twin the
// real generator runs and its text is "compiled in". Faults: the header is
// not regenerated after the registrations changed (stale), or was generated
// from other registrations (one entry perturbed); the checked twin must then
// reject every call of the methods concerned. A final regeneration makes the
// last tables comparable with the baseline's (flavour differential).
Plan gen_C12(std::uint64_t seed, int tier) {
    Gen g(seed, tier);
    g.p.prop = "C12";
    g.p.profile = "static-offsets";
    g.p.diff = "flavours";
    bool checked = g.r.chance(0.65);
    std::vector<std::string> pool = {
        g.r.chance(0.5) ? "sdbg" : "srel", checked ? "sofd" : "sofr"};
    if (g.r.chance(0.15))
        pool.push_back(checked ? "sofr" : "sofd");
    int np = (int)pool.size();
    g.p.pols = pool;
    auto is_sof = [&](int pi) { return pool[pi][1] == 'o'; };
    BasicOpts o;
    o.max_alias = 1;
    o.max_cls = tier ? 14 : 9;
    // every arity; multi-methods more often (they have strides)
    o.slots = {0, 1, 2, 3, 4, 5, 6, 7, 8, 9, 10, 11, 12, 13, 14, 15, 16, 17,
               18, 19, 4, 6, 7, 8, 9, 10, 12, 13, 16, 17, 19, 8, 9, 10, 20, 21,
               20, 21};
    basic_world(g, o, false);
    int style = g.r.chance(0.5) ? (int)g.r.below(ST_COUNT) : -1;
    std::vector<int> base, later;
    std::set<int> used;
    auto fresh_slot = [&]() {
        for (int tries = 0; tries < 100; ++tries) {
            int sl = o.slots[g.r.below(o.slots.size())];
            if (used.insert(sl).second)
                return sl;
        }
        return -1;
    };
    {
        auto cr = g.class_recs(0, style, false);
        for (auto& v : cr)
            for (int ri : v)
                base.push_back(ri);
        int nm = g.r.range(1, 4);
        for (int k = 0; k < nm; ++k) {
            int sl = fresh_slot();
            if (sl < 0)
                break;
            int mi = g.method(0, sl, o.root_bias);
            base.push_back(mi);
            for (int di : g.defs(0, mi, g.r.range(0, 6), o.focus))
                base.push_back(di);
        }
    }
    bool history = g.r.chance(0.6);
    if (history) {
        int nm = g.r.range(1, 3);
        for (int k = 0; k < nm; ++k) {
            int sl = fresh_slot();
            if (sl < 0)
                break;
            int mi = g.method(0, sl, o.root_bias);
            later.push_back(mi);
            for (int di : g.defs(0, mi, g.r.range(0, 4), o.focus))
                later.push_back(di);
        }
    }
    std::vector<std::vector<int>> per_pol(np), later_pol(np);
    per_pol[0] = base;
    later_pol[0] = later;
    for (int pi = 1; pi < np; ++pi) {
        std::map<int, int> remap;
        for (int phase = 0; phase < 2; ++phase)
            for (int ri : phase ? later : base) {
                Rec c = g.p.recs[ri];
                c.pol = pi;
                if (c.kind == RK_DEF)
                    c.meth = remap[c.meth];
                remap[ri] = g.add(c);
                (phase ? later_pol : per_pol)[pi].push_back(remap[ri]);
            }
    }
    auto offsets = [&](int pi) -> Event& {
        Event e;
        e.op = OP_OFFSETS;
        e.pol = pi;
        e.per_method = g.r.chance(0.5);
        e.fresh_gen = g.r.chance(0.35);
        if (g.r.chance(0.006))
            e.compile = 1 + (int)g.r.below(2);
        g.p.events.push_back(e);
        return g.p.events.back();
    };
    auto methods_of = [&](int pi, bool with_later) {
        std::vector<int> v;
        for (int ri : per_pol[pi])
            if (g.p.recs[ri].kind == RK_METHOD)
                v.push_back(ri);
        if (with_later)
            for (int ri : later_pol[pi])
                if (g.p.recs[ri].kind == RK_METHOD)
                    v.push_back(ri);
        return v;
    };
    auto perturb = [&](int pi, bool with_later) {
        auto ms = methods_of(pi, with_later);
        if (ms.empty())
            return;
        Event& e = offsets(pi);
        e.meth = ms[g.r.below(ms.size())];
        e.ppos = (int)g.r.below(16);
        static const long long deltas[] = {1, 1, -1, 2, 7, -3, 1000};
        e.pdelta = deltas[g.r.below(7)];
        e.stale = g.r.chance(0.3);
    };
    std::uint64_t oseed = g.r.next();
    {
        Rng keep = g.r;
        for (int pi = 0; pi < np; ++pi) {
            g.r = Rng(oseed); // the same order under every flavour
            g.ev_load(g.order(per_pol[pi]));
        }
        g.r = keep;
    }
    std::uint64_t sample = g.r.next();
    int nup = g.r.range(1, 2);
    // the generator program also writes the encoded tables, before the
    // offsets and - unless the offsets event asks for a fresh generator - to
    // the same output stream (seeded change C12-q: formatting state left
    // behind by encode_dispatch_data)
    const bool tables_too = g.r.chance(0.3);
    for (int pi = 0; pi < np; ++pi) {
        for (int u = 0; u < nup; ++u) {
            auto& up = g.ev_update(pi);
            if (tables_too && is_sof(pi))
                up.encode = 1;
        }
        if (is_sof(pi))
            offsets(pi);
        auto& ck = g.ev_check(pi, ROUTES_BASIC);
        ck.sample_seed = sample;
        if (pool[pi] == "sofd" && g.r.chance(0.3)) {
            perturb(pi, false);
            g.ev_check(pi, ROUTES_BASIC).sample_seed = sample;
            offsets(pi); // regenerate: accepted again
            g.ev_check(pi, ROUTES_BASIC).sample_seed = sample;
        }
    }
    if (history) {
        std::vector<std::size_t> gone;
        for (std::size_t k = 0; k < base.size(); ++k)
            if (g.p.recs[base[k]].kind == RK_DEF && g.r.chance(0.25))
                gone.push_back(k);
        std::uint64_t sample2 = g.r.next();
        std::uint64_t oseed2 = g.r.next();
        for (int pi = 0; pi < np; ++pi) {
            std::vector<int> un;
            for (auto k : gone)
                un.push_back(per_pol[pi][k]);
            if (!un.empty())
                g.ev_unload(un);
            Rng keep = g.r;
            g.r = Rng(oseed2);
            auto ord = g.order(later_pol[pi]);
            g.r = keep;
            g.ev_load(ord);
        }
        for (int pi = 0; pi < np; ++pi) {
            g.ev_update(pi);
            if (is_sof(pi)) {
                if (pool[pi] == "sofd" && g.r.chance(0.35)) {
                    // the header of the previous build is still in use
                    Event& e = offsets(pi);
                    e.stale = 1;
                    g.ev_check(pi, ROUTES_BASIC).sample_seed = sample2;
                } else if (pool[pi] == "sofd" && g.r.chance(0.25)) {
                    offsets(pi);
                    perturb(pi, true);
                    g.ev_check(pi, ROUTES_BASIC).sample_seed = sample2;
                }
                offsets(pi);
            }
            auto& ck = g.ev_check(pi, ROUTES_BASIC);
            ck.sample_seed = sample2;
        }
    }
    g.p.heap_jitter = g.r.chance(0.3) ? (int)g.r.below(40) : 0;
    return g.p;
}

// ---------------------------------------------------------------------------
// C13: encode / decode. A generator process (any load / unload / update
// history, the last update is encoded) and a consumer process holding the same
// registrations in the same catalog order, which decodes instead of updating.
Plan gen_C13(std::uint64_t seed, int tier) {
    Rng r(seed ^ 0xC13);
    Plan p;
    BasicOpts o;
    o.pols = {"sdbg", "srel", "shr"};
    // the documented use: decoded tables together with static offsets
    bool with_offsets = r.chance(0.3);
    if (with_offsets)
        o.pols = {"sofd", "sofr"};
    o.max_alias = 1;
    o.max_cls = tier ? 16 : 10;
    o.max_meth = 4;
    if (r.chance(0.45)) {
        HistOpts h;
        h.b = o;
        h.min_steps = 2;
        h.max_steps = 9;
        h.p_check = 0.3;
        p = gen_history("C13", seed, tier, h, "");
    } else {
        if (r.chance(0.4)) {
            // lattices under multiple inheritance: v-tables that do not start
            // at slot 0, classes without any method
            static const int fams[] = {F_DAG, F_JOIN, F_LADDER, F_DIAMONDS,
                                       F_WIDE};
            o.family = fams[r.below(5)];
            o.min_cls = 4;
            o.root_bias = 0.3;
        }
        p = gen_basic("C13", seed, tier, o);
    }
    p.profile += "/encode-decode";
    if (with_offsets) {
        // the header is regenerated after every update of the generator
        // process and compiled into both programs
        std::vector<Event> evs;
        for (auto& e : p.events) {
            evs.push_back(e);
            if (e.op == OP_UPDATE) {
                evs.back().hash_budget = 0;
                evs.back().alloc_fail_at = -1;
                evs.back().alloc_fail_from_end = -1;
                Event oe;
                oe.op = OP_OFFSETS;
                oe.pol = e.pol;
                oe.per_method = (int)r.below(2);
                evs.push_back(oe);
            }
        }
        p.events = evs;
    }
    if (r.chance(0.5))
        for (auto& rec : p.recs)
            if (rec.kind == RK_DEF)
                rec.nonext = 1;
    // the last update is the one the generator program encodes
    int last_up = -1, last_ck = -1;
    for (int i = 0; i < (int)p.events.size(); ++i) {
        if (p.events[i].op == OP_UPDATE)
            last_up = i;
        if (p.events[i].op == OP_CHECK)
            last_ck = i;
    }
    if (last_up < 0 || last_ck < last_up)
        return p;
    p.events.resize(last_ck + 1);
    p.events[last_up].encode = 1;
    if (r.chance(0.01))
        p.events[last_up].compile = 1 + (int)r.below(2);
    p.events[last_up].hash_budget = 0;
    p.events[last_up].alloc_fail_at = -1;
    p.events[last_up].alloc_fail_from_end = -1;
    // catalogs at that point, in order
    std::vector<int> classes, methods;
    std::map<int, std::vector<int>> defs;
    for (auto& e : p.events) {
        if (e.op == OP_LOAD)
            for (int ri : e.recs) {
                auto& rec = p.recs[ri];
                if (rec.kind == RK_CLASS)
                    classes.push_back(ri);
                else if (rec.kind == RK_METHOD)
                    methods.push_back(ri);
                else
                    defs[rec.meth].push_back(ri);
            }
        if (e.op == OP_UNLOAD)
            for (int ri : e.recs) {
                auto& rec = p.recs[ri];
                auto drop = [&](std::vector<int>& v) {
                    v.erase(std::remove(v.begin(), v.end(), ri), v.end());
                };
                if (rec.kind == RK_CLASS)
                    drop(classes);
                else if (rec.kind == RK_METHOD) {
                    drop(methods);
                    defs.erase(ri);
                } else
                    drop(defs[rec.meth]);
            }
    }
    Event rs;
    rs.op = OP_RESTART;
    rs.pol = 0;
    p.events.push_back(rs);
    // the consumer's static initialisation: the same catalogs, in the same
    // order; how the three kinds interleave is free
    Event ld;
    ld.op = OP_LOAD;
    std::vector<std::vector<int>> streams;
    streams.push_back(classes);
    streams.push_back(methods);
    std::vector<std::size_t> pos(2, 0);
    std::map<int, std::size_t> dpos;
    std::set<int> loaded_methods;
    for (;;) {
        std::vector<int> choices; // 0: class, 1: method, 2+k: def of method k
        if (pos[0] < classes.size())
            choices.push_back(0);
        if (pos[1] < methods.size())
            choices.push_back(1);
        for (std::size_t k = 0; k < methods.size(); ++k)
            if (loaded_methods.count(methods[k]) &&
                dpos[methods[k]] < defs[methods[k]].size())
                choices.push_back(2 + (int)k);
        if (choices.empty())
            break;
        int c = choices[r.below(choices.size())];
        if (c == 0)
            ld.recs.push_back(classes[pos[0]++]);
        else if (c == 1) {
            loaded_methods.insert(methods[pos[1]]);
            ld.recs.push_back(methods[pos[1]++]);
        } else {
            int m = methods[c - 2];
            ld.recs.push_back(defs[m][dpos[m]++]);
        }
    }
    if (!ld.recs.empty())
        p.events.push_back(ld);
    Event dc;
    dc.op = OP_DECODE;
    dc.pol = 0;
    if (r.chance(0.12)) {
        static const int budgets[] = {1, 1, 1, 2};
        dc.hash_budget = budgets[r.below(4)];
        dc.hash_seed = 1 + r.below(1000000);
    }
    p.events.push_back(dc);
    Event ck = p.events[last_ck];
    p.events.push_back(ck);
    return p;
}

bool has_profile(const std::string& prop) {
    static const char* props[] = {"C01", "C02", "C03", "C04", "C05", "C06",
                                  "C07", "C08", "C09", "C10", "C12", "C13",
                                  "C14", "C15", "C17", "C18"};
    for (auto p : props)
        if (prop == p)
            return true;
    return false;
}

static Plan generate_profile(const std::string& prop, std::uint64_t seed, int tier);

Plan generate(const std::string& prop, std::uint64_t seed, int tier) {
    // half of the runs: a registered abstract class is a legal dynamic class
    // (a method called from the constructor or destructor of an abstract
    // base); not under the scheduler, which has its own argument rules
    g_abstract_args = prop != "C16" && (mix3(seed, 0xAB57AC7, 1) & 1);
    // Properties decided by per-state oracles (the model, the structural
    // scan, the look-up and catalog checks run at every check / load event of
    // every plan) borrow one plan in eight from the profile of another
    // property: each profile was written with one property in mind, and
    // seeded changes were missed more than once because the state they
    // needed was only reached by a neighbour's profile. The borrowed plan
    // runs under the borrower's focus, without the lender's differential.
    static const std::set<std::string> borrowers = {
        "C01", "C02", "C03", "C04", "C05", "C17", "C18"};
    static const char* const lenders[] = {
        "C01", "C02", "C03", "C04", "C05", "C06", "C07", "C08",
        "C09", "C10", "C12", "C13", "C14", "C15", "C17", "C18"};
    std::string from = prop;
    if (borrowers.count(prop) && mix3(seed, 0xB0220, 2) % 8 == 0)
        from = lenders[mix3(seed, 0xB0220, 3) %
                       (sizeof lenders / sizeof lenders[0])];
    Plan p;
    if (from == prop)
        p = generate_profile(prop, seed, tier);
    else {
        p = generate_profile(from, mix3(seed, 0xB0220, 4), tier);
        p.prop = prop;
        p.profile = "borrowed:" + from + "/" + p.profile;
        p.diff.clear();
        p.orders.clear();
    }
    p.abstract_args = g_abstract_args ? 1 : 0;
    g_abstract_args = false;
    return p;
}

static Plan generate_profile(const std::string& prop, std::uint64_t seed, int tier) {
    if (prop == "C01")
        return gen_C01(seed, tier);
    if (prop == "C02")
        return gen_C02(seed, tier);
    if (prop == "C03")
        return gen_C03(seed, tier);
    if (prop == "C04")
        return gen_C04(seed, tier);
    if (prop == "C05")
        return gen_C05(seed, tier);
    if (prop == "C09")
        return gen_C09(seed, tier);
    if (prop == "C15")
        return gen_C15(seed, tier);
    if (prop == "C06")
        return gen_C06(seed, tier);
    if (prop == "C07")
        return gen_C07(seed, tier);
    if (prop == "C08")
        return gen_C08(seed, tier);
    if (prop == "C10")
        return gen_C10(seed, tier);
    if (prop == "C12")
        return gen_C12(seed, tier);
    if (prop == "C13")
        return gen_C13(seed, tier);
    if (prop == "C14")
        return gen_C14(seed, tier);
    if (prop == "C16")
        return gen_C16(seed, tier);
    if (prop == "C17")
        return gen_C17(seed, tier);
    if (prop == "C18")
        return gen_C18(seed, tier);
    throw std::runtime_error("no generator profile for " + prop);
}

} // namespace ys
