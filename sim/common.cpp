// Process-wide harness state: id table, objects, hooks, allocation fault.
#include "tokens.hpp"

#include <cstdarg>
#include <cstdio>
#include <cstdlib>
#include <new>
#include <unordered_map>

namespace ys {

Globals g;

Obj* g_obj[MAXC][MAXALIAS];
std::shared_ptr<Obj> g_sp[MAXC][MAXALIAS];
const std::shared_ptr<Obj>* g_csp[MAXC][MAXALIAS];

static std::unordered_map<tid, tid>* g_canon;

std::vector<PolicyOps*>& all_policies() {
    static std::vector<PolicyOps*> v;
    return v;
}

PolicyOps* find_policy(const std::string& name) {
    for (auto p : all_policies())
        if (p->name == name)
            return p;
    return nullptr;
}

template<std::size_t... I>
static void make_objects_impl(std::index_sequence<I...>) {
    for (int a = 0; a < MAXALIAS; ++a) {
        std::shared_ptr<Obj> row[] = {
            std::static_pointer_cast<Obj>(std::make_shared<K<(int)I>>())...};
        for (int c = 0; c < MAXC; ++c) {
            g_sp[c][a] = row[c];
            g_obj[c][a] = row[c].get();
            g_obj[c][a]->cls = c;
            g_obj[c][a]->alias = a;
            g_csp[c][a] = &g_sp[c][a];
        }
    }
}

void make_objects() {
    make_objects_impl(std::make_index_sequence<MAXC>());
}

void set_world_ids(const World& w) {
    if (!g_canon)
        g_canon = new std::unordered_map<tid, tid>;
    g_canon->clear();
    for (int c = 0; c < MAXC; ++c) {
        g.nalias[c] = 0;
        for (int a = 0; a < MAXALIAS; ++a)
            g.ids[c][a] = 0;
    }
    for (int c = 0; c < w.ncls && c < MAXC; ++c) {
        g.nalias[c] = (int)w.ids[c].size();
        for (int a = 0; a < (int)w.ids[c].size() && a < MAXALIAS; ++a) {
            g.ids[c][a] = w.ids[c][a];
            (*g_canon)[w.ids[c][a]] = w.ids[c][0];
        }
    }
    for (int c = 0; c < MAXC; ++c)
        for (int a = 0; a < MAXALIAS; ++a)
            if (g_obj[c][a])
                g_obj[c][a]->id = g.ids[c][a];
}

static_assert(
    PROBE_HASH_ATTEMPT == yorel::yomm2::verif::probe_hash_attempt,
    "probe numbering");

void* harness_object(int cls, int alias) {
    return g_obj[cls][alias];
}

tid canon_id(tid id) {
    if (g_canon) {
        auto it = g_canon->find(id);
        if (it != g_canon->end())
            return it->second;
    }
    return id;
}

void probe_write(const char* fmt, ...) {
    if (g.probe_fd < 0)
        return;
    char buf[256];
    va_list ap;
    va_start(ap, fmt);
    int n = vsnprintf(buf, sizeof buf, fmt, ap);
    va_end(ap);
    if (n > 0) {
        ssize_t r = write(g.probe_fd, buf, (size_t)n);
        (void)r;
    }
}

// hooks (H1, H3). The yield hook (H2) is installed by the scheduler only.
static std::uint64_t hook_hash_seed(std::uint64_t shipped) {
    return g.hash_seed ? g.hash_seed : shipped;
}
static std::size_t hook_hash_budget(std::size_t shipped) {
    return g.hash_budget ? (std::size_t)g.hash_budget : shipped;
}
#if defined(__clang__)
__attribute__((disable_sanitizer_instrumentation))
#else
__attribute__((no_sanitize("thread")))
#endif
static void hook_probe(int id) {
    ++g.probes[id];
}

void install_hooks() {
    yorel::yomm2::verif::hooks.hash_seed = &hook_hash_seed;
    yorel::yomm2::verif::hooks.hash_budget = &hook_hash_budget;
    yorel::yomm2::verif::hooks.probe = &hook_probe;
}

} // namespace ys

// ---------------------------------------------------------------------------
// allocation fault: global operator new, armed only inside an update event

#ifndef YS_NO_NEW_REPLACEMENT
static void* ys_alloc(std::size_t n) {
    if (ys::g.alloc_armed) {
        ++ys::g.alloc_count;
        if (ys::g.alloc_countdown >= 0) {
            if (ys::g.alloc_countdown == 0) {
                ys::g.alloc_countdown = -1;
                throw std::bad_alloc();
            }
            --ys::g.alloc_countdown;
        }
    }
    void* p = std::malloc(n ? n : 1);
    if (!p)
        throw std::bad_alloc();
    return p;
}

void* operator new(std::size_t n) {
    return ys_alloc(n);
}
void* operator new[](std::size_t n) {
    return ys_alloc(n);
}
void operator delete(void* p) noexcept {
    std::free(p);
}
void operator delete[](void* p) noexcept {
    std::free(p);
}
void operator delete(void* p, std::size_t) noexcept {
    std::free(p);
}
void operator delete[](void* p, std::size_t) noexcept {
    std::free(p);
}
void* operator new(std::size_t n, const std::nothrow_t&) noexcept {
    try {
        return ys_alloc(n);
    } catch (...) {
        return nullptr;
    }
}
void* operator new[](std::size_t n, const std::nothrow_t&) noexcept {
    try {
        return ys_alloc(n);
    } catch (...) {
        return nullptr;
    }
}
void operator delete(void* p, const std::nothrow_t&) noexcept {
    std::free(p);
}
void operator delete[](void* p, const std::nothrow_t&) noexcept {
    std::free(p);
}
#endif // YS_NO_NEW_REPLACEMENT
