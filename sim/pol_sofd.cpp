#include "pols.hpp"
namespace ys {
static WorldT<pol::sofd> the_world("sofd");
}
