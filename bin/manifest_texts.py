"""Texts for MANIFEST.json (one entry per claimed property)."""

SIM = "deterministic simulation: seeded search over "

TEXTS = {
    "C01": {
        "technique": SIM + "registries x policies x post-history states, reference-model oracle",
        "design_ref": "DESIGN.md 4 (C01)",
        "text": "Seeded plans build arbitrary class graphs, methods of every pooled shape (virtual and non-virtual parameters at any position, arity 1-5, reference / pointer / shared_ptr / virtual_ptr / virtual_shared_ptr parameters, also mixed in one method) and focus-biased definition sets on each policy of the pool (checked/fast hash, no hash, map, indirect, throwing, stock debug/release with std_rtti, the stock release_shared policy itself), also after load/unload/update histories; every legal argument tuple is resolved three ways (bounds-checked table walk, M::fn(...), M::fn.resolve(...)) and compared with the documented 'more specific than every other applicable definition' rule evaluated by an independent model. Exploration, not proof.",
        "note": "trusts the reference model and the legality rules; bounds: <= 24 classes, arity <= 5, <= 16 definitions per method; one plan in eight is borrowed from another property's profile; in half of the runs objects whose dynamic class is a registered abstract class are legal arguments",
    },
    "C02": {
        "technique": SIM + "erroring calls x handler outcomes (throws / returns -> abort in a forked child)",
        "design_ref": "DESIGN.md 4 (C02)",
        "text": "Plans biased to sparse or clashing definitions; every tuple whose model outcome is 'no definition' or 'ambiguous' is called with a throwing handler (vectored error, deprecated call_error, throw_error facet): no body may run, the handler runs once, status/arity/type ids must be those of exactly the virtual arguments, the exception reaches the caller and later calls still verify; forked abort probes let the handler return and require SIGABRT with no body run.",
        "note": "handler outcome is the injected fault; trusts fork/waitpid for the abort probes",
    },
    "C03": {
        "technique": SIM + "registries x update histories, next pointer compared with the model after every update",
        "design_ref": "DESIGN.md 4 (C03)",
        "text": "After every completed update of every history the next cell of each live definition is compared with the pointer the model predicts (definition, not-implemented or ambiguous handler), and next is called from inside a definition to confirm what runs and that arguments pass through.",
        "note": "next cells are harness-owned variables registered exactly as add_function registers them",
    },
    "C04": {
        "technique": SIM + "lattices x registration styles; structural scan of installed data + ASan on the real path",
        "design_ref": "DESIGN.md 4 (C04)",
        "text": "From the installed data only (static v-table pointers, slots-and-strides, dispatch_data) every (class, method, parameter) applicable pair must have a distinct cell inside dispatch_data; a bounds-checked restatement of the documented table walk must stay inside dispatch_data and end on a function of that method; then the real resolve path runs under AddressSanitizer.",
        "note": "dispatch data is one heap vector, so ASan sees out-of-bounds and stale reads",
    },
    "C05": {
        "technique": SIM + "id sets from loader-like families x grow/shrink/replace histories x seeded searches x exhausted search budgets (fault), pristine-twin differential",
        "design_ref": "DESIGN.md 4 (C05)",
        "text": "hash-sim drives publish_vptrs / hash_initialize directly with model classes (0-600 ids; random 64-bit, clustered pointers, small integers, high-bit-only, low-bit-only, strided) through histories of growing, shrinking and replaced sets, with a seeded search and, as fault, an attempt budget of 1-100: each step must either report exactly one hash_search_error with the number of attempts really made, or install parameters under which every registered id has its own index inside the vector holding its class's pointer (and the address of its static pointer when indirect) while the checked variant rejects ~200 unregistered ids per step (near misses, ids removed by the previous step, constants); the outcome must equal that of a pristine twin policy given the same ids, seed and budget. registry-sim repeats the lookup checks inside full worlds after load/unload/relocate histories.",
        "note": "fault_enumeration: the fault kind (budget exhaustion) is enumerated over budgets {1,2,3,10,100} x seeds x histories, sampled, not exhaustive",
    },
    "C06": {
        "technique": SIM + "static-initialisation orders (permutation differential + model)",
        "design_ref": "DESIGN.md 4 (C06)",
        "text": "Each registry is executed under several registration orders (classes, methods, definitions shuffled; reversed) in a pristine policy each time; the observed outcome tables (every sampled tuple, every next) must be identical across orders.",
        "note": "the order of static initialisation is the schedule the simulator owns",
    },
    "C07": {
        "technique": SIM + "load/unload/relocate/update histories with aborted updates (hash budget, bad_alloc); differential against a fresh update",
        "design_ref": "DESIGN.md 4 (C07)",
        "text": "Histories of module loads and unloads (real constructors/destructors on zeroed storage), id relocation on reload, repeated updates, updates aborted by an exhausted hash search or a failing allocation, under eager, custom, aliased and deferred ids, with and without hash; the outcome table after the history must equal the table of a fresh update of the same live registrations in a pristine policy, and a repeated update must change nothing observable.",
        "note": "the dynamic loader is simulated by construct / destroy / zero of registration objects",
    },
    "C08": {
        "technique": SIM + "presentations of one class graph (direct-only, redundant, split records); differential against the canonical presentation",
        "design_ref": "DESIGN.md 4 (C08)",
        "text": "One abstract graph is presented in many ways (complete lists, direct bases only, with/without self, duplicates, several records per class, any order); acceptance, dispatch and next must equal those of the canonical presentation of the same graph run in a pristine policy, and the C04 no-shared-cell scan must pass.",
        "note": "the model's base relation is the closure of the listed edges",
    },
    "C09": {
        "technique": SIM + "virtual_ptr lifetimes (make / copy / move / convert / use / drop) interleaved with updates that reallocate the dispatch data",
        "design_ref": "DESIGN.md 4 (C09)",
        "text": "Pointers are made by every route (base reference, exact static type, final, copy, move-convert; virtual_shared_ptr from const / non-const / temporary shared_ptr, converting, make_virtual_shared), held across 0-n updates of the same policy that grow or shrink the registry, copied, and used as arguments of pointer-taking methods; get / * / -> must give back the object, _vptr() the class's current v-table pointer, and the call must run what the model says a plain reference would. With an indirect policy pointers made before an update are used after it; otherwise only within their epoch.",
        "note": "a direct virtual_ptr is never used after its policy's next update (the property allows it to dangle)",
    },
    "C10": {
        "technique": SIM + "RTTI flavours of one abstract registry (std_rtti, integer ids, aliased ids with projection, deferred ids), repeated updates",
        "design_ref": "DESIGN.md 4 (C10)",
        "text": "One abstract plan is instantiated on 2-5 sibling policies of different flavours; the outcome tables must be identical and every registered alias id of a class must reach that class's definitions (objects carry any registered alias).",
        "note": "std_rtti runs on the K<c> class tokens; the other flavours use the simulator's id table",
    },
    "C12": {
        "technique": SIM + "registries x update histories x stale / perturbed generated headers (fault); generated text vs installed offsets, differential against the twin policy without static offsets, accept / reject by the run-time consistency check",
        "design_ref": "DESIGN.md 4 (C12)",
        "text": "The generated header is durable state that crosses a process boundary: it is written by one run of the program and compiled into another whose registrations may have changed. Per run, the real write_static_offsets output is parsed and must equal, position by position, the slots and strides update installed (read the way the non-static call path reads them); it is then installed in static_offsets<> specialisations of every pooled method of a twin policy and every sampled call (operator(), resolve, next) must give what the same registry gives on the policy that reads offsets at run time. With the checked twin, offsets equal to the installed ones must never be reported, and after a stale or perturbed header every call of a method whose offsets differ must be reported (slot or stride error, once, before any definition runs).",
        "note": "the C++ compiler is replaced by a parser of the generated text; arity 1-5, every pooled parameter kind; std_rtti policies only",
    },
    "C13": {
        "technique": SIM + "generator-process histories x consumer-process restarts; encode -> parse -> decode in a pristine policy; differential of outcome tables before / after, ASan-guarded emitted object, hash-budget fault inside decode",
        "design_ref": "DESIGN.md 4 (C13)",
        "text": "The encoded dispatch data is durable state produced by a generator process (after any load / unload / update history) and consumed by another process that holds the same registrations and never calls update. The simulator runs the real encode_dispatch_data on the compiler object of the last update, parses the emitted structure (bounds, initialisers, decode call), simulates the end of the process (every registration destroyed, every static of the policy back to zero), constructs the same registrations again, lays the emitted object out in one heap block of exactly its declared size and runs the real decode_dispatch_data on it; then every sampled call is resolved three ways and the outcome table must equal the one observed right after the encoded update; every look-up goes through the hash decode published. Violations of other properties' oracles count for C13 only if they were not already present before decoding.",
        "note": "whether the supported compilers accept the text is decided by a parser stub, cross-checked with g++ / clang++ in 1 % of the runs (no MSVC); same catalog order assumed in both processes; finding K1 (decode did not install next) was repaired in /repo (6b14f6f)",
    },
    "C14": {
        "technique": SIM + "interleavings of registrations, updates (also aborted), handler changes over 2-3 policies sharing class ids",
        "design_ref": "DESIGN.md 4 (C14)",
        "text": "After every event on one policy, everything published for each other policy (dispatch data, v-table pointer tables, hash parameters, control table, static v-table pointers, slots and strides, next cells), its catalogs, its handler and its held virtual_ptrs must be unchanged; an error raised by a call of one policy must be delivered to the handler installed for that policy (every harness handler knows which policy it was installed for); each policy is also checked against its own model, and (solo differential) re-run alone in a pristine process with identical results. Engine tw2 does the same through the real registration front-end: two typed-world policies with interleaved histories sharing policy-independent definition functions, then each history alone; reports, outcome tables and verdicts must be identical.",
        "note": "policies are distinct types built with basic_policy / rebind",
    },
    "C15": {
        "technique": SIM + "fault 'lost registration' injected at every place a class can occur x argument route, handler throws or returns (forked abort probe)",
        "design_ref": "DESIGN.md 4 (C15)",
        "text": "From a legal plan one class's records are withheld: as a listed base, a method parameter or a definition parameter (update must report unknown_class with that class's id and install nothing; after the registration arrives the next update is clean), or as the dynamic class of an argument at each virtual position through references, pointers, shared_ptr, virtual_ptr from a base reference, from the exact static type, copied, moved (the call or construction must report it before any table read or definition); final on another dynamic type must report a method table error; with a returning handler a forked child must die by SIGABRT after exactly one report. The typed world adds the same call-time oracle through the real thunks and virtual_ptr constructors with C++ static types (an object of an unregistered leaf class, dynamic and exact-type routes).",
        "note": "checked policies only (debug-shaped with the simulator's ids, stock debug with std_rtti, checked+indirect, deferred); final on an unregistered exact type is outside the property (final skips the look-up by design)",
    },
    "C16": {
        "technique": "deterministic simulation: seeded thread schedules (real threads parked and released one at a time) under ThreadSanitizer with a hidden hand-off, results compared with the sequential execution; 8% cold runs in a pristine process (first-use paths run concurrently); scheduling points also right before atomic operations (link-time wrappers of the sanitizer's atomic entry points); engine twsched runs the typed world (real front-end, casts across multiple and virtual inheritance, stock std_rtti) under the same scheduler",
        "design_ref": "DESIGN.md 3.6, 4 (C16)",
        "text": "Caller threads run seeded scripts on policy A (calls through every argument route, resolve only, erroring calls whose handler throws, making / copying / converting / using / dropping virtual_ptrs and virtual_shared_ptrs) while another thread loads, unloads, updates (also with injected faults) and calls policy B; the scheduler decides every interleaving from the seed. Checked: no ThreadSanitizer report (found by happens-before analysis although execution is serialised, hence replayable), every result equals the one of the sequential execution of the same script and the model, and the data update<A> published is unchanged at every scheduler step.",
        "note": "exploration over schedules; TSan sees no synchronisation between tasks because the scheduler's futex words are only touched from uninstrumented functions",
    },
    "C17": {
        "technique": SIM + "registries x abstract flags, report compared with an enumeration by the model",
        "design_ref": "DESIGN.md 4 (C17)",
        "text": "At every completed update the four report flags are compared with the model's enumeration over tuples of registered (resp. non-abstract) classes, and report.cells with the number of multi-method cells in the compiler object.",
        "note": "abstract flags are drawn at random, biased to abstract roots",
    },
    "C18": {
        "technique": SIM + "constructor / destructor histories of registration objects vs a vector model",
        "design_ref": "DESIGN.md 4 (C18)",
        "text": "After every load or unload the three kinds of catalog (classes, methods, each method's definitions) must enumerate exactly the live registrations, once each, in registration order, with matching size() and empty(); re-registration after removal is part of every history, and so is a method registration object destroyed and constructed again in place while its definitions stay registered.",
        "note": "list-sim drives detail::static_list directly: every sequence of <= 5 operations over 3 nodes exhaustively, then random histories of up to 120 operations over 1-6 nodes",
    },
}

NOT_APPLICABLE = {
    "C11": "quantifies over template instantiations (programs): fixed at compile time, no schedule, fault or history to simulate",
    "C19": "pure function from a set of strings to a string; no state, no environment",
    "C20": "compile-time template metaprogram; quantifies over generated programs",
}
