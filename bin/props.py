"""Per-property check specifications used by bin/check."""

ASAN = {"binary": "yosim.asan", "target": "build/yosim.asan"}

COMMON_ASSUMPTIONS = [
    "sampling, not proof: a clean batch is evidence only",
    "the reference model (sim/model.hpp) states the documented rules; it was "
    "cross-checked against the repaired library on millions of worlds",
    "synthetic world: registration records are hand-built mirrors of what "
    "class_declaration / method / add_function objects contribute; class "
    "tokens have no C++ inheritance between them",
    "legal inputs only (DESIGN.md 3.3): anything outside them is INVALID, "
    "never a violation; in half of the runs objects whose dynamic class is "
    "a registered abstract class are legal arguments (a call from the "
    "constructor or destructor of an abstract base)",
    "clang 14 AddressSanitizer + UndefinedBehaviorSanitizer on the real code",
]

REAL = ("real: yomm2 compiler.hpp (update), core.hpp call path and "
        "virtual_ptr, all policy facets, static_list; ")
STUB = ("stubbed: registration templates (hand-filled records), dynamic "
        "loader (construct/destroy/zero), rtti facet and error handlers "
        "(harness-owned), operator new (wrapped)")

NT = ("runs are plans drawn from VERIF_SEED (swarm configuration, then "
      "world, registrations, events); a run is non-trivial if its registry "
      "has a class with >= 2 direct bases, or a checked tuple with >= 2 "
      "applicable definitions, or a fault fired; distinct = distinct "
      "signature (policy, closure of every registered class, methods, "
      "definitions, event kinds) counted exactly over all workers")


def reg(name, quick_runs, quick_secs, th_runs, th_secs):
    e = dict(ASAN)
    e.update({"name": name,
              "quick": {"runs": quick_runs, "secs": quick_secs},
              "thorough": {"runs": th_runs, "secs": th_secs}})
    return e


def spec(engines, level="exploration", rule=NT, extra_assumptions=()):
    return {"engines": engines, "level": level, "rule": rule,
            "components": REAL + STUB,
            "assumptions": COMMON_ASSUMPTIONS + list(extra_assumptions)}


TW_NOTE = ("typed world (engine tw): the real use_classes / class_declaration "
           "/ method / add_function / add_definition front-end, thunks and "
           "casts on three fixed C++ hierarchies (tree, multiple inheritance "
           "with a base at a non-zero offset, virtual-base diamond), 20 "
           "registration statements and 20 definitions loaded and unloaded "
           "as images would be")


def tw(q_runs, q_secs, t_runs, t_secs):
    return reg("tw", q_runs, q_secs, t_runs, t_secs)


PROPS = {
    "C01": spec([reg("C01", 96000, 40, 4000000, 700), tw(8000, 25, 400000, 200)],
                extra_assumptions=[TW_NOTE]),
    "C02": spec([reg("C02", 96000, 40, 4000000, 780)]),
    "C03": spec([reg("C03", 80000, 40, 4000000, 700), tw(6000, 20, 300000, 150)],
                extra_assumptions=[TW_NOTE]),
    "C04": spec([reg("C04", 80000, 40, 4000000, 780)]),
    "C05": spec([reg("C05", 16000, 35, 2000000, 600),
                 reg("hash", 1600, 20, 400000, 600)],
                level="fault_enumeration",
                extra_assumptions=[
                    "hook H1 (guarded) lets the plan choose the seed and the attempt budget of the hash search; with no plan value the shipped constants apply",
                    "the id ~0 (yomm2's invalid_type, the empty-bucket marker) is not used as a probe"]),
    "C06": spec([reg("C06", 30000, 45, 2000000, 780)]),
    "C07": spec([reg("C07", 40000, 45, 2000000, 700), tw(8000, 25, 400000, 200)],
                extra_assumptions=[TW_NOTE]),
    "C08": spec([reg("C08", 60000, 45, 3000000, 700), tw(8000, 25, 400000, 200)],
                extra_assumptions=[TW_NOTE]),
    "C09": spec([reg("C09", 60000, 45, 3000000, 700), tw(6000, 20, 300000, 150)],
                extra_assumptions=[TW_NOTE]),
    "C10": spec([reg("C10", 36000, 45, 2000000, 700), tw(6000, 20, 300000, 150)],
                extra_assumptions=[TW_NOTE]),
    "C12": spec([reg("C12", 64000, 50, 3000000, 700), tw(5000, 20, 300000, 150)],
                rule=("each run: one registry on a stock-shaped std_rtti "
                      "policy (offsets read at run time) and on its twin whose "
                      "pooled methods all have static_offsets<> "
                      "specialisations; after each update of the twin the real "
                      "write_static_offsets runs (per policy or per method), "
                      "its text is parsed (the C++ compiler is the stubbed "
                      "component) and installed in the specialisations; faults: "
                      "header not regenerated after the registrations changed, "
                      "one generated entry perturbed; non-trivial = a method of "
                      "arity >= 2 was generated for, or a fault fired; distinct "
                      "= distinct state signature as for the other registry-sim "
                      "checks"),
                extra_assumptions=[
                    "the text is 'compiled' by a parser that accepts exactly "
                    "the documented shape (one static_offsets specialisation "
                    "per line); in a sample of runs (about 1 offsets event in "
                    "170) the text is also given to g++ or clang++ "
                    "(-fsyntax-only, after forward declarations of the "
                    "library's templates and the harness's types); MSVC is "
                    "not available",
                    "the specialisations hold run-time filled arrays instead "
                    "of constexpr ones; the library only reads slots[i] and "
                    "strides[i]",
                    "the generator needs std_rtti (it demangles type_info "
                    "names): only the stock debug / release shapes are used",
                    "engine tw under C12: after every update of a typed-world "
                    "history on a stock std_rtti policy the generator's text "
                    "for the policy is compared with the installed offsets of "
                    "the twelve real methods (text against installed only; "
                    "the typed world has no static_offsets specialisations)",
                    TW_NOTE]),
    "C13": spec([reg("C13", 160000, 45, 4000000, 700), tw(5000, 25, 300000, 150)],
                rule=("each run: a generator process (load / unload / update "
                      "history on a stock-shaped std_rtti policy, the last "
                      "update is encoded with the real encode_dispatch_data), "
                      "then a consumer process (every static of the policy "
                      "back to its load-time state, the same registrations "
                      "constructed again in the same catalog order, kinds "
                      "interleaved by the seed) that parses the emitted text "
                      "into one heap block laid out as the emitted struct "
                      "declares and runs the real decode_dispatch_data on it; "
                      "fault: exhausted hash-search budget inside decode; "
                      "non-trivial / distinct as for the other registry-sim "
                      "checks"),
                extra_assumptions=[
                    "the emitted text is 'compiled' by a parser of braced "
                    "initialisers that rejects what a compiler would reject "
                    "for this shape (negative bounds, excess initialisers, "
                    "constants that do not fit); in 1 % of the runs the text "
                    "is also given to g++ or clang++ (-fsyntax-only, inside a "
                    "function body, with a stand-in for decode_dispatch_data "
                    "and the policy name declared); MSVC is not available",
                    "the decoded block is one malloc'ed object of exactly the "
                    "declared size: AddressSanitizer reports any read or "
                    "write outside it",
                    "same registrations = same catalogs in the same order; "
                    "nothing is claimed when the consumer's static "
                    "initialisation order differs from the generator's",
                    "finding K1 (next slots were not installed by decode) "
                    "was repaired in /repo (6b14f6f): a null next after "
                    "decode is an ordinary violation, and definitions call "
                    "next after a decode",
                    "engine tw under C13: the last update of a typed-world "
                    "history is encoded, every registration object destroyed "
                    "and constructed again in the same order, the text "
                    "decoded, and every tuple of every loaded method called "
                    "through the real thunks (definitions that call next "
                    "included)",
                    TW_NOTE]),
    "C14": spec([reg("C14", 40000, 45, 2000000, 780),
                 reg("tw2", 4000, 25, 200000, 200)],
                extra_assumptions=[TW_NOTE,
                    "engine tw2: two typed-world policies go through interleaved histories in one process, then each history alone; reports, outcome tables and oracle verdicts must be identical; definitions that are policy-independent functions are shared by both policies"]),
    "C15": spec([reg("C15", 60000, 45, 3000000, 780), tw(6000, 20, 300000, 150)],
                level="fault_enumeration", extra_assumptions=[TW_NOTE]),
    "C16": {
        "engines": [{"binary": "yosched.tsan", "target": "build/yosched.tsan",
                     "name": "sched",
                     "quick": {"runs": 48000, "secs": 45},
                     "thorough": {"runs": 3000000, "secs": 780}},
                    {"binary": "yosched.tsan", "target": "build/yosched.tsan",
                     "name": "twsched",
                     "quick": {"runs": 16000, "secs": 30},
                     "thorough": {"runs": 1000000, "secs": 400}}],
        "level": "exploration",
        "rule": ("each run: a world on policy A updated before the threads "
                 "start, 2-6 caller tasks with seeded scripts (calls through "
                 "every route, resolve, erroring calls with a throwing "
                 "handler, virtual_ptr make/copy/use/drop; in 12% of the runs "
                 "A dispatches through generated static offsets) and one task that "
                 "loads, unloads, updates and calls policy B; a seeded "
                 "scheduler releases one real thread at a time (yield points "
                 "between operations, through hook H2 inside yomm2, and right "
                 "before atomic operations of instrumented code); engine "
                 "twsched: the same with the typed world (real front-end, "
                 "casts across multiple and virtual inheritance, stock "
                 "std_rtti policy in 40% of runs); "
                 "distinct = distinct (schedule, registry) signature, where "
                 "the schedule signature hashes the sequence of task picks; "
                 "non-trivial = at least 2 caller tasks and more scheduler "
                 "steps than tasks"),
        "components": REAL + STUB + "; threads are real std::thread objects, "
                      "the choice of who runs is the simulator's",
        "assumptions": COMMON_ASSUMPTIONS + [
            "ThreadSanitizer (clang 14) with the scheduler hand-off hidden "
            "from it (futex words touched only from uninstrumented code): "
            "conflicting accesses of different tasks are reported although "
            "they never overlap in real time; assumes TSan's shadow still "
            "holds the earlier access (runs are short)",
            "sensitivity shown with a counter added to method::resolve: "
            "reported on the first run, minimised to two one-call tasks",
            "atomic operations of instrumented code reach the sanitizer "
            "runtime through __tsan_atomic* calls, which are wrapped at link "
            "time to offer a scheduling point first; code that is not "
            "instrumented (libstdc++.so, libc) has none", TW_NOTE],
    },
    "C17": spec([reg("C17", 96000, 40, 4000000, 780)]),
    "C18": spec([reg("C18", 40000, 40, 2000000, 500),
                 reg("list", 80000, 30, 4000000, 300),
                 tw(6000, 20, 300000, 150)],
                extra_assumptions=[TW_NOTE]),
}
